import TssVerif.Core.Zk
import TssVerif.Lemmas.C11
import TssVerif.Props.C14
/-! # C11 — decision logic of the zero-knowledge verifiers

For every hash `H` and all inputs: acceptance (`= .ok true`) by a verifier of the current tree (`Zk.cur`)
implies every guard and every verification equation, written as congruences. Cryptographic soundness
against arbitrary provers is statistical and is *not* stated; what is stated besides the decision logic are
the exact algebraic extraction steps on which the soundness arguments rest.

Conventions. `a ≡ b [ZMOD m]` is `a % m = b % m`. Go's `Exp(x, y, m)` with `y < 0` goes through `ModInverse`;
where an exponent read from the proof may be negative in the model (`Int`), the equation is stated multiplied
through: with `y⁺ = y.toNat`, `y⁻ = (−y).toNat` the value `r = Exp(x, y, m)` satisfies `r · x^{y⁻} ≡ x^{y⁺}`. -/
set_option autoImplicit false
set_option linter.style.haveILetI false
namespace TssVerif.C11
open TssVerif TssVerif.Zk TssVerif.C11L TssVerif.Paillier

/-! ## Alice's range proof -/

/-- acceptance of `(*RangeProofAlice).Verify` implies every guard and both equations -/
theorem range_accept_implies (H : HashFn) (q : Nat) (n ntilde h1 h2 c : Int) (pf : RangeProof)
    (h : rangeVerify cur H q n ntilde h1 h2 c pf = .ok true) :
    let e := rangeChallenge H q n c pf.z pf.u pf.w
    0 < n ∧ 0 < ntilde ∧
    (0 ≤ pf.z ∧ pf.z < ntilde) ∧ (0 ≤ pf.u ∧ pf.u < n * n) ∧ (0 ≤ pf.w ∧ pf.w < ntilde) ∧
    (0 ≤ pf.s ∧ pf.s < n) ∧
    Int.gcd pf.z ntilde = 1 ∧ Int.gcd pf.u (n * n) = 1 ∧ Int.gcd pf.w ntilde = 1 ∧
    (q : Int) ≤ pf.s1 ∧ pf.s1 ≤ (q : Int) ^ 3 ∧ (q : Int) ≤ pf.s2 ∧
    pf.s ≠ 1 ∧ pf.z ≠ 1 ∧ pf.s1 ≠ pf.s2 ∧ Int.gcd c (n * n) = 1 ∧
    pf.u * c ^ e ≡ (n + 1) ^ pf.s1.toNat * pf.s ^ n.toNat [ZMOD n * n] ∧
    pf.w * pf.z ^ e ≡ h1 ^ pf.s1.toNat * h2 ^ pf.s2.toNat [ZMOD ntilde] := by
  intro e
  unfold rangeVerify at h
  simp only [ite_reject, bind_ok, expP_ok, Bool.not_eq_true, Bool.not_eq_false', isInInterval_iff, bne_iff_ne,
    ne_eq, not_not, beq_iff_eq, not_lt, gt_iff_lt, cur, Bool.true_and, Outcome.ok.injEq] at h
  obtain ⟨hz, hu, hw, hs, gz, gu, gw, s1lo, s2lo, sne, zne, s12, s1hi, gc, cE, hcE, sN, hsN, gS1, hgS1, equ,
    a1, ha1, a2, ha2, zE, hzE, eqw⟩ := h
  have hn : 0 < n := by omega
  have hnt : 0 < ntilde := by omega
  have hq0 : (0 : Int) ≤ q := Int.natCast_nonneg q
  have hM2 : (((n * n).natAbs : Nat) : Int) = n * n := natAbs_mul_self_cast n
  have hMt : ((ntilde.natAbs : Nat) : Int) = ntilde := natAbs_cast_of_pos hnt
  refine ⟨hn, hnt, hz, hu, hw, hs, gz, gu, gw, s1lo, ?_, s2lo, sne, zne, s12, gc, ?_, ?_⟩
  · have : ((q * q * q : Nat) : Int) = (q : Int) ^ 3 := by push_cast; ring
    rw [← this]; exact s1hi
  · have e1 := goExp_modEq_negNat hcE
    have e2 := goExp_modEq_nonneg (le_of_lt hn) hsN
    have e3 := goExp_modEq_nonneg (le_trans hq0 s1lo) hgS1
    have e4 := natCast_mulmod3 gS1 sN cE (n * n).natAbs
    rw [← equ] at e4
    rw [hM2] at e1 e2 e3 e4
    exact mul_through e4 e1 e3 e2
  · have e1 := goExp_modEq_negNat hzE
    have e2 := goExp_modEq_nonneg (le_trans hq0 s2lo) ha2
    have e3 := goExp_modEq_nonneg (le_trans hq0 s1lo) ha1
    have e4 := natCast_mulmod3 a1 a2 zE ntilde.natAbs
    rw [← eqw] at e4
    rw [hMt] at e1 e2 e3 e4
    exact mul_through e4 e1 e3 e2

/-! ## Bob's proofs -/
section bob
variable {P : Type} (C : Curve P)

/-- acceptance of `(*ProofBob).Verify` (`xu = none`) and of `(*ProofBobWC).Verify` (`xu = some (X, U)`) implies
every interval, unit and range guard and the equations of steps 5, 6, 7 of the Go verifier (GG18Spec Figs. 10 & 11) -/
theorem bob_accept_implies (H : HashFn) (sess : Bytes) (n ntilde h1 h2 c1 c2 : Int) (pf : BobProof)
    (xu : Option (ECPoint × ECPoint))
    (h : bobVerify C H cur sess n ntilde h1 h2 c1 c2 pf xu = .ok true) :
    let q : Int := C.q
    let e := bobChallenge C H sess n c1 c2 xu pf
    0 < n ∧ 0 < ntilde ∧
    (0 ≤ pf.z ∧ pf.z < ntilde) ∧ (0 ≤ pf.zPrm ∧ pf.zPrm < ntilde) ∧ (0 ≤ pf.t ∧ pf.t < ntilde) ∧
    (0 ≤ pf.v ∧ pf.v < n * n) ∧ (0 ≤ pf.w ∧ pf.w < ntilde) ∧ (0 ≤ pf.s ∧ pf.s < n) ∧
    Int.gcd pf.z ntilde = 1 ∧ Int.gcd pf.zPrm ntilde = 1 ∧ Int.gcd pf.t ntilde = 1 ∧
    Int.gcd pf.v (n * n) = 1 ∧ Int.gcd pf.w ntilde = 1 ∧
    pf.s ≠ 0 ∧ Int.gcd pf.s n = 1 ∧ pf.v ≠ 0 ∧ Int.gcd pf.v n = 1 ∧
    q ≤ pf.s1 ∧ pf.s1 ≤ q ^ 3 ∧ q ≤ pf.s2 ∧ q ≤ pf.t1 ∧ pf.t1 ≤ q ^ 7 ∧ q ≤ pf.t2 ∧
    h1 ^ pf.s1.toNat * h2 ^ pf.s2.toNat ≡ pf.z ^ e * pf.zPrm [ZMOD ntilde] ∧
    h1 ^ pf.t1.toNat * h2 ^ pf.t2.toNat ≡ pf.t ^ e * pf.w [ZMOD ntilde] ∧
    c1 ^ pf.s1.toNat * pf.s ^ n.toNat * (n + 1) ^ pf.t1.toNat ≡ c2 ^ e * pf.v [ZMOD n * n] := by
  intro q e
  obtain ⟨⟨a1, a2, a3, a4, a5, a6, a7, a8, a9, a10, a11, a12, a13, a14, a15, a16, a17, a18, a19, a20, a21⟩, -, ht⟩ :=
    bobVerify_split C H sess n ntilde h1 h2 c1 c2 pf xu h
  have hn : 0 < n := by omega
  have hnt : 0 < ntilde := by omega
  have hq0 : (0 : Int) ≤ C.q := Int.natCast_nonneg _
  have hM2 : (((n * n).natAbs : Nat) : Int) = n * n := natAbs_mul_self_cast n
  have hMt : ((ntilde.natAbs : Nat) : Int) = ntilde := natAbs_cast_of_pos hnt
  have hMt0 : ntilde.natAbs ≠ 0 := by omega
  have hM20 : (n * n).natAbs ≠ 0 := by
    have : 0 < n * n := Int.mul_pos hn hn
    omega
  refine ⟨hn, hnt, a1, a2, a3, a4, a5, a6, a7, a8, a9, a10, a11, a12, a13, a14, a15, a16, a20, a17, a18, a21, a19, ?_⟩
  unfold bobTail at ht
  simp only [ite_reject, bind_ok, expP_ok, bne_iff_ne, ne_eq, not_not, beq_iff_eq, Outcome.ok.injEq] at ht
  obtain ⟨x1, hx1, x2, hx2, x3, hx3, eq5, y1, hy1, y2, hy2, y3, hy3, eq6, z1, hz1, z2, hz2, z3, hz3, z4, hz4, eq7⟩ := ht
  have enn : (0 : Int) ≤ ((bobChallenge C H sess n c1 c2 xu pf : Nat) : Int) := Int.natCast_nonneg _
  have pw : ∀ (x : Int) (k : Nat), x ^ ((k : Int)).toNat = x ^ k := fun x k => by rw [Int.toNat_natCast]
  refine ⟨?_, ?_, ?_⟩
  · have e1 := goExp_modEq_nonneg (le_trans hq0 a16) hx1
    have e2 := goExp_modEq_nonneg (le_trans hq0 a17) hx2
    have e3 := goExp_modEq_nonneg enn hx3
    have e4 := modEq_of_mulmod2_eq hMt0 eq5
    rw [hMt] at e1 e2 e3 e4
    rw [pw] at e3
    exact ((e1.mul e2).symm.trans e4).trans (e3.mul_right _)
  · have e1 := goExp_modEq_nonneg (le_trans hq0 a18) hy1
    have e2 := goExp_modEq_nonneg (le_trans hq0 a19) hy2
    have e3 := goExp_modEq_nonneg enn hy3
    have e4 := modEq_of_mulmod2_eq hMt0 eq6
    rw [hMt] at e1 e2 e3 e4
    rw [pw] at e3
    exact ((e1.mul e2).symm.trans e4).trans (e3.mul_right _)
  · have e1 := goExp_modEq_nonneg (le_trans hq0 a16) hz1
    have e2 := goExp_modEq_nonneg (le_of_lt hn) hz2
    have e3 := goExp_modEq_nonneg (le_trans hq0 a18) hz3
    have e5 := goExp_modEq_nonneg enn hz4
    have e4 := modEq_of_mulmod3_eq hM20 eq7
    rw [hM2] at e1 e2 e3 e4 e5
    rw [pw] at e5
    exact (((e1.mul e2).mul e3).symm.trans e4).trans (e5.mul_right _)

/-- the with-check variant: `(s1 mod q)·G = e·X + U`, both as outcomes of the Go-level point API and in the group -/
theorem bobWC_accept_implies_point (hC : C.Lawful) (H : HashFn) (sess : Bytes) (n ntilde h1 h2 c1 c2 : Int)
    (pf : BobProof) (X U : ECPoint)
    (h : bobVerify C H cur sess n ntilde h1 h2 c1 c2 pf (some (X, U)) = .ok true) :
    let e := bobChallenge C H sess n c1 c2 (some (X, U)) pf
    let s1q := (pf.s1 % (C.q : Int)).toNat
    s1q ≠ 0 ∧ e ≠ 0 ∧
    (∃ g xe, C.ecBaseMult (s1q : Int) = .ok g ∧ C.ecScalarMult X (e : Int) = .ok xe ∧ C.ecAdd xe U = .ok g) ∧
    ∃ pX pU, C.lift X = some pX ∧ C.lift U = some pU ∧ C.smul s1q C.base = C.add (C.smul e pX) pU := by
  intro e s1q
  obtain ⟨-, hp, -⟩ := bobVerify_split C H sess n ntilde h1 h2 c1 c2 pf (some (X, U)) h
  obtain ⟨hs, he, g, xe, hg, hxe, hadd⟩ := hp
  refine ⟨hs, he, ⟨g, xe, hg, hxe, hadd⟩, ?_⟩
  obtain ⟨pX, hX, hxe'⟩ := ecScalarMult_nat_ok hxe
  obtain ⟨pU, hU, hsum⟩ := ecAdd_ok_left hC hxe' hadd
  exact ⟨pX, pU, hX, hU, hC.toAffine_inj _ _ ((ecBaseMult_nat_ok hg).trans hsum.symm)⟩

end bob

/-! ## Schnorr proofs -/
section schnorr
variable {P : Type} (C : Curve P)

/-- acceptance of `(*ZKProof).Verify`: `t ≢ 0`, `c ≠ 0` and the group equation `t·G = α + c·X` -/
theorem schnorr_accept_implies (hC : C.Lawful) (H : HashFn) (sess : Bytes) (X alpha : ECPoint) (t : Nat)
    (h : schnorrVerify C H cur sess X alpha t = .ok true) :
    let c := schnorrChallenge C H sess X alpha
    t % C.q ≠ 0 ∧ c ≠ 0 ∧
    ∃ pX pA, C.lift X = some pX ∧ C.lift alpha = some pA ∧
      C.smul t C.base = C.add pA (C.smul c pX) := by
  intro c
  unfold schnorrVerify at h
  dsimp only at h
  obtain ⟨hg, h⟩ := ite_reject.1 h
  simp only [cur, Bool.true_and, Bool.or_eq_true, beq_iff_eq, not_or] at hg
  obtain ⟨tG, htG, h⟩ := bind_ok.1 h
  obtain ⟨xc, hxc, h⟩ := bind_ok.1 h
  split at h
  · rename_i axc hadd
    rw [Outcome.ok.injEq, ecEquals_iff] at h
    subst h
    obtain ⟨pX, hX, hxc'⟩ := ecScalarMult_nat_ok hxc
    obtain ⟨pA, hA, hsum⟩ := ecAdd_ok_right hC hxc' hadd
    exact ⟨hg.1, hg.2, pX, pA, hX, hA, hC.toAffine_inj _ _ ((ecBaseMult_nat_ok htG).trans hsum.symm)⟩
  · exact absurd h (by simp)
  · exact absurd h (by simp)

/-- acceptance of `(*ZKVProof).Verify`: `α` on the curve, `t, u ≢ 0`, `c ≠ 0` and `t·R + u·G = α + c·V` -/
theorem schnorrV_accept_implies (hC : C.Lawful) (H : HashFn) (sess : Bytes) (V R alpha : ECPoint) (t u : Nat)
    (h : schnorrVVerify C H cur sess V R alpha t u = .ok true) :
    let c := schnorrVChallenge C H sess V R alpha
    C.ecIsOnCurve alpha = true ∧ t % C.q ≠ 0 ∧ u % C.q ≠ 0 ∧ c ≠ 0 ∧
    ∃ pV pR pA, C.lift V = some pV ∧ C.lift R = some pR ∧ C.lift alpha = some pA ∧
      C.add (C.smul t pR) (C.smul u C.base) = C.add pA (C.smul c pV) := by
  intro c
  unfold schnorrVVerify at h
  dsimp only at h
  obtain ⟨hon, h⟩ := ite_reject.1 h
  obtain ⟨hg, h⟩ := ite_reject.1 h
  simp only [cur, Bool.true_and, Bool.or_eq_true, beq_iff_eq, not_or, Bool.not_eq_true', Bool.not_eq_false] at hg hon
  obtain ⟨tR, htR, h⟩ := bind_ok.1 h
  obtain ⟨uG, huG, h⟩ := bind_ok.1 h
  split at h
  · exact absurd h (by simp [cur])
  · exact absurd h (by simp)
  · rename_i tRuG hadd1
    obtain ⟨vc, hvc, h⟩ := bind_ok.1 h
    split at h
    · rename_i avc hadd2
      rw [Outcome.ok.injEq, ecEquals_iff] at h
      subst h
      obtain ⟨pR, hR, htR'⟩ := ecScalarMult_nat_ok htR
      obtain ⟨pV, hV, hvc'⟩ := ecScalarMult_nat_ok hvc
      have hs1 := ecAdd_ok_both hC htR' (ecBaseMult_nat_ok huG) hadd1
      obtain ⟨pA, hA, hs2⟩ := ecAdd_ok_right hC hvc' hadd2
      exact ⟨hon, hg.1.1, hg.1.2, hg.2, pV, pR, pA, hV, hR, hA, hC.toAffine_inj _ _ (hs1.trans hs2.symm)⟩
    · exact absurd h (by simp)
    · exact absurd h (by simp)

end schnorr

/-! ## Paillier-Blum modulus proof -/

/-- acceptance of `(*ProofMod).Verify`: `N` positive, odd, composite (for `ProbablyPrime`), `W` a unit in `(0, N)`
whose Jacobi symbol is not `1`, all `X_i, Z_i` in `(0, N)`, `A`, `B` of exactly 81 bits, and for each of the 80 challenges
`Y_i` of the hash chain: `Z_i^N ≡ Y_i` and `X_i^4 ≡ (−1)^{a_i} W^{b_i} Y_i (mod N)` -/
theorem mod_accept_implies (H : HashFn) (sess : Bytes) (w : Int) (xs : List Int) (a b : Int) (zs : List Int) (n : Int)
    (h : modVerify cur H sess w xs a b zs n = .ok true) :
    0 < n ∧ n % 2 = 1 ∧ isProbablyPrime n.toNat = false ∧
    (∃ j, goJacobi w n.toNat = .ok j ∧ j ≠ 1) ∧
    (0 < w ∧ w < n) ∧ Int.gcd w n = 1 ∧
    (∀ z ∈ zs, 0 < z ∧ z < n) ∧ (∀ x ∈ xs, 0 < x ∧ x < n) ∧
    bitLen a.natAbs = 81 ∧ bitLen b.natAbs = 81 ∧
    ∃ ys, modYs H sess w n 80 [] = .ok ys ∧ ys.length = 80 ∧ ∀ i, i < 80 →
      (zs.getD i 0) ^ n.toNat ≡ ys.getD i 0 [ZMOD n] ∧
      (xs.getD i 0) ^ 4 ≡
        (-1) ^ (a.natAbs.testBit i).toNat * w ^ (b.natAbs.testBit i).toNat * ys.getD i 0 [ZMOD n] := by
  unfold modVerify at h
  simp only [ite_reject, bind_ok, Bool.not_eq_true, Bool.not_eq_false', bne_iff_ne,
    ne_eq, not_not, beq_iff_eq, not_lt, cur, Bool.true_and, Outcome.ok.injEq, Bool.or_eq_true, not_or,
    List.all_eq_true, Bool.and_eq_true, decide_eq_true_eq, List.mem_range, not_le, modIterations] at h
  obtain ⟨⟨hn, hodd⟩, -, j, hj, hj1, hw, hg, hzs, hxs, -, ha, hb, ys, hys, ⟨-, hpp⟩, hall⟩ := h
  have hn0 : n.toNat ≠ 0 := by omega
  have hnc : ((n.toNat : Nat) : Int) = n := Int.toNat_of_nonneg (le_of_lt hn)
  refine ⟨hn, by omega, hpp, ⟨j, hj, hj1⟩, hw, ?_, hzs, hxs, ha, hb, ys, hys, ?_, fun i hi => ?_⟩
  · rw [Int.gcd_eq_natAbs]
    have e1 : w.natAbs = w.toNat := by omega
    have e2 : n.natAbs = n.toNat := by omega
    rw [e1, e2]; exact hg
  · simpa using modYs_length H sess w n 80 [] ys hys
  · obtain ⟨h1, h2⟩ := hall i hi
    rw [modPow_spec] at h1 h2
    constructor
    · have e := natpow_mod_cast (getD_nonneg (fun x hx => (hzs x hx).1) i) n.toNat hn
      rw [h1] at e
      exact e.symm
    · have e := natpow_mod_cast (getD_nonneg (fun x hx => (hxs x hx).1) i) 4 hn
      rw [h2] at e
      exact e.symm.trans
        (mod_rhs_modEq hn w (le_of_lt hw.1) (ys.getD i 0) (a.natAbs.testBit i) (b.natAbs.testBit i))

/-! ## no-small-factor proof -/

/-- acceptance of `(*ProofFac).Verify`: `N0, NCap > 0`, `0 ≤ z1, z2 < q³·⌊√N0⌋` and the three equations.
The exponents `w1, w2, σ, v` are arbitrary integers in the model (the honest `v` may be negative), so the equations
are stated multiplied through by the negative parts (`y⁺ = y.toNat`, `y⁻ = (−y).toNat`); a negative exponent
is only accepted when `t` is a unit modulo `NCap`. `fac_accept_implies_nonneg` is the plain form. -/
theorem fac_accept_implies (H : HashFn) (q : Nat) (sess : Bytes) (n0 ncap s t : Int) (pf : FacProof)
    (h : facVerify cur H q sess n0 ncap s t pf = .ok true) :
    let e := facChallenge H q sess n0 ncap s t pf
    let bound : Int := (q : Int) ^ 3 * isqrt n0.toNat
    0 < n0 ∧ 0 < ncap ∧ (0 ≤ pf.z1 ∧ pf.z1 < bound) ∧ (0 ≤ pf.z2 ∧ pf.z2 < bound) ∧
    ((pf.w1 < 0 ∨ pf.w2 < 0 ∨ pf.sigma < 0 ∨ pf.v < 0) → Int.gcd t ncap = 1) ∧
    s ^ pf.z1.toNat * t ^ pf.w1.toNat ≡ pf.A * pf.P ^ e * t ^ (-pf.w1).toNat [ZMOD ncap] ∧
    s ^ pf.z2.toNat * t ^ pf.w2.toNat ≡ pf.B * pf.Q ^ e * t ^ (-pf.w2).toNat [ZMOD ncap] ∧
    pf.Q ^ pf.z1.toNat * t ^ pf.v.toNat * (t ^ (-pf.sigma).toNat) ^ e ≡
      pf.T * (s ^ n0.toNat * t ^ pf.sigma.toNat) ^ e * t ^ (-pf.v).toNat [ZMOD ncap] := by
  intro e bound
  unfold facVerify at h
  simp only [ite_reject, ite_err, bind_ok, expP_ok, Bool.not_eq_true, Bool.not_eq_false', bne_iff_ne,
    ne_eq, not_not, beq_iff_eq, cur, Bool.true_and, Outcome.ok.injEq, decide_eq_true_eq, not_le, isInInterval_iff] at h
  obtain ⟨hn0, hnc, hz1, hz2, -, x1, hx1, x2, hx2, x3, hx3, eq1, y1, hy1, y2, hy2, y3, hy3, eq2,
    r1, hr1, r2, hr2, r3, hr3, r4, hr4, r5, hr5, eq3⟩ := h
  have hM : ((ncap.natAbs : Nat) : Int) = ncap := natAbs_cast_of_pos hnc
  have hM0 : ncap.natAbs ≠ 0 := by omega
  have hb : ((q * q * q * isqrt n0.toNat : Nat) : Int) = bound := by
    show _ = (q : Int) ^ 3 * _; push_cast; ring
  rw [hb] at hz1 hz2
  have enn : (0 : Int) ≤ ((facChallenge H q sess n0 ncap s t pf : Nat) : Int) := Int.natCast_nonneg _
  have pw : ∀ (x : Int) (k : Nat), x ^ ((k : Int)).toNat = x ^ k := fun x k => by rw [Int.toNat_natCast]
  obtain ⟨-, -, g2, u2⟩ := goExp_modEq hx2
  obtain ⟨-, -, g2', u2'⟩ := goExp_modEq hy2
  obtain ⟨-, -, g5, u5⟩ := goExp_modEq hr2
  obtain ⟨-, -, g7, u7⟩ := goExp_modEq hr4
  rw [hM] at g2 g2' g5 g7 u2 u2' u5 u7
  refine ⟨hn0, hnc, hz1, hz2, ?_, ?_, ?_, ?_⟩
  · rintro (h0 | h0 | h0 | h0)
    exacts [u2 h0, u2' h0, u5 h0, u7 h0]
  · have e1 := goExp_modEq_nonneg hz1.1 hx1
    have e3 := goExp_modEq_nonneg enn hx3
    have e4 := modEq_of_mulmod2_eq hM0 eq1
    rw [hM] at e1 e3 e4
    rw [pw] at e3
    exact fac_eq12 e4 e1 g2 e3
  · have e1 := goExp_modEq_nonneg hz2.1 hy1
    have e3 := goExp_modEq_nonneg enn hy3
    have e4 := modEq_of_mulmod2_eq hM0 eq2
    rw [hM] at e1 e3 e4
    rw [pw] at e3
    exact fac_eq12 e4 e1 g2' e3
  · have e1 := goExp_modEq_nonneg (le_of_lt hn0) hr1
    have e6 := goExp_modEq_nonneg hz1.1 hr3
    have e8 := goExp_modEq_nonneg enn hr5
    have e4 := modEq_of_mulmod2_eq hM0 eq3
    have eR := natCast_mulmod2 r1 r2 ncap.natAbs
    rw [hM] at e1 e6 e8 e4 eR
    rw [pw] at e8
    exact fac_eq3 e4 e6 g7 e8 eR e1 g5

/-- the three equations in plain form when no exponent is negative -/
theorem fac_accept_implies_nonneg (H : HashFn) (q : Nat) (sess : Bytes) (n0 ncap s t : Int) (pf : FacProof)
    (h : facVerify cur H q sess n0 ncap s t pf = .ok true)
    (hw1 : 0 ≤ pf.w1) (hw2 : 0 ≤ pf.w2) (hsg : 0 ≤ pf.sigma) (hv : 0 ≤ pf.v) :
    let e := facChallenge H q sess n0 ncap s t pf
    s ^ pf.z1.toNat * t ^ pf.w1.toNat ≡ pf.A * pf.P ^ e [ZMOD ncap] ∧
    s ^ pf.z2.toNat * t ^ pf.w2.toNat ≡ pf.B * pf.Q ^ e [ZMOD ncap] ∧
    pf.Q ^ pf.z1.toNat * t ^ pf.v.toNat ≡ pf.T * (s ^ n0.toNat * t ^ pf.sigma.toNat) ^ e [ZMOD ncap] := by
  intro e
  obtain ⟨-, -, -, -, -, e1, e2, e3⟩ := fac_accept_implies H q sess n0 ncap s t pf h
  have h1 : (-pf.w1).toNat = 0 := by omega
  have h2 : (-pf.w2).toNat = 0 := by omega
  have h3 : (-pf.sigma).toNat = 0 := by omega
  have h4 : (-pf.v).toNat = 0 := by omega
  rw [h1, pow_zero, mul_one] at e1
  rw [h2, pow_zero, mul_one] at e2
  rw [h3, h4, pow_zero, one_pow, mul_one, mul_one] at e3
  exact ⟨e1, e2, e3⟩

/-! ## discrete-log proof over the auxiliary modulus -/

/-- acceptance of `(*dlnproof.Proof).Verify`: `N > 0`, `h1, h2, α_i, t_i` all `> 1` modulo `N`, `h1 ≢ h2`, and for each of
the 128 challenge bits `c_i`: `h1^{t_i} ≡ α_i · h2^{c_i} (mod N)`. (`t_i` is an `Int` in the model; a negative one goes
through `ModInverse`, so the equation carries the factor `h1^{t_i⁻}`, which is `1` for `t_i ≥ 0`.) -/
theorem dln_accept_implies (H : HashFn) (alpha t : List Int) (h1 h2 n : Int)
    (h : dlnVerify H alpha t h1 h2 n = .ok true) :
    let c := dlnChallenge H h1 h2 n alpha
    0 < n ∧ 1 < h1 % n ∧ 1 < h2 % n ∧ h1 % n ≠ h2 % n ∧ (∀ a ∈ alpha, 1 < a % n) ∧ (∀ x ∈ t, 1 < x % n) ∧
    ∀ i, i < 128 →
      (t.getD i 0 < 0 → Int.gcd h1 n = 1) ∧
      h1 ^ (t.getD i 0).toNat ≡
        alpha.getD i 0 * h2 ^ (c.testBit i).toNat * h1 ^ (-(t.getD i 0)).toNat [ZMOD n] := by
  intro c
  unfold dlnVerify at h
  simp only [ite_reject, Bool.not_eq_true, Bool.not_eq_false', beq_iff_eq,
    Bool.and_eq_true, decide_eq_true_eq, not_le, List.all_eq_true] at h
  obtain ⟨hn, hh1, hh2, hne, ht, ha, h⟩ := h
  refine ⟨hn, hh1.1, hh2.1, hne, fun a h' => (ha a h').1, fun x h' => (ht x h').1, fun i hi => ?_⟩
  have hstep := (foldlM_guard_ok _ _ h).2 i (List.mem_range.2 hi)
  simp only [bind_ok, expP_ok, Outcome.pure_eq, Outcome.ok.injEq, beq_iff_eq] at hstep
  obtain ⟨l, hl, r, hr, heq⟩ := hstep
  have hM : ((n.toNat : Nat) : Int) = n := Int.toNat_of_nonneg (le_of_lt hn)
  have hM0 : n.toNat ≠ 0 := by omega
  obtain ⟨-, -, gl, ul⟩ := goExp_modEq hl
  have er := goExp_modEq_nonneg (by split <;> omega) hr
  have el := toNat_emod_cast (alpha.getD i 0 * (r : Int)) hM0
  rw [hM] at gl ul er el
  rw [← heq] at el
  refine ⟨ul, ?_⟩
  have hbit : (if (dlnChallenge H h1 h2 n alpha).testBit i = true then (1 : Int) else 0).toNat = (c.testBit i).toNat := by
    show _ = ((dlnChallenge H h1 h2 n alpha).testBit i).toNat
    cases (dlnChallenge H h1 h2 n alpha).testBit i <;> rfl
  rw [hbit] at er
  exact gl.symm.trans ((el.trans (er.mul_left _)).mul_right _)

/-- plain form when the responses are non-negative (as every value read from the wire is) -/
theorem dln_accept_implies_nonneg (H : HashFn) (alpha t : List Int) (h1 h2 n : Int)
    (h : dlnVerify H alpha t h1 h2 n = .ok true) (ht : ∀ x ∈ t, 0 ≤ x) :
    ∀ i, i < 128 →
      h1 ^ (t.getD i 0).toNat ≡ alpha.getD i 0 * h2 ^ ((dlnChallenge H h1 h2 n alpha).testBit i).toNat [ZMOD n] := by
  intro i hi
  have := ((dln_accept_implies H alpha t h1 h2 n h).2.2.2.2.2.2 i hi).2
  have h0 : (-(t.getD i 0)).toNat = 0 := by have := getD_nonneg' ht i; omega
  rwa [h0, pow_zero, mul_one] at this

/-! ## exact extraction steps -/
section extraction
variable {P : Type} (C : Curve P)

/-- **special soundness**: two accepting Schnorr transcripts `(α, c, t)`, `(α, c', t')` with the same commitment and
different challenges determine the discrete logarithm of `X`: `X = ((t − t')·(c − c')⁻¹ mod q)·G`.
`hX` (the point lies in the subgroup of order `q`) cannot be dropped on a curve with cofactor: there
`(c − c')·X = (t − t')·G` leaves the small-order component of `X` undetermined whenever it is killed by `c − c'`. -/
theorem schnorr_special_sound (hC : C.Lawful) {pX pA : P} {t t' c c' : Nat}
    (hX : C.smul C.q pX = C.zero) (hc : c < C.q) (hc' : c' < C.q) (hne : c ≠ c')
    (e1 : C.smul t C.base = C.add pA (C.smul c pX)) (e2 : C.smul t' C.base = C.add pA (C.smul c' pX)) :
    pX = C.smul ((((t : ZMod C.q) - t') * ((c : ZMod C.q) - c')⁻¹).val) C.base := by
  letI := hC.groupLaws.addCommGroup
  rw [hC.smul_eq_nsmul] at hX e1 e2 ⊢
  rw [hC.smul_eq_nsmul] at e1 e2
  have hg : C.q • C.base = (0 : P) := by
    have := hC.smul_q_base
    rwa [hC.smul_eq_nsmul] at this
  exact special_sound_group hC.q_prime hg hX hc hc' hne e1 e2

/-- the same, starting from two accepting runs of `schnorrVerify` (any two hashes and sessions) on the same `X`, `α` -/
theorem schnorr_two_transcripts (hC : C.Lawful) (H H' : HashFn) (sess sess' : Bytes) (X alpha : ECPoint) (t t' : Nat)
    (h : schnorrVerify C H cur sess X alpha t = .ok true)
    (h' : schnorrVerify C H' cur sess' X alpha t' = .ok true)
    (hne : schnorrChallenge C H sess X alpha ≠ schnorrChallenge C H' sess' X alpha)
    (hord : ∀ pX, C.lift X = some pX → C.smul C.q pX = C.zero) :
    ∃ pX, C.lift X = some pX ∧
      pX = C.smul ((((t : ZMod C.q) - t') *
        ((schnorrChallenge C H sess X alpha : ZMod C.q) - schnorrChallenge C H' sess' X alpha)⁻¹).val) C.base := by
  obtain ⟨-, -, pX, pA, hX, hA, e1⟩ := schnorr_accept_implies C hC H sess X alpha t h
  obtain ⟨-, -, pX', pA', hX', hA', e2⟩ := schnorr_accept_implies C hC H' sess' X alpha t' h'
  rw [hX] at hX'; cases hX'
  rw [hA] at hA'; cases hA'
  have lt : ∀ (H : HashFn) (s : Bytes), schnorrChallenge C H s X alpha < C.q := fun H s =>
    Nat.mod_lt _ hC.q_pos
  exact ⟨pX, hX, schnorr_special_sound C hC (hord pX hX) (lt H sess) (lt H' sess') hne e1 e2⟩

end extraction

/-- **both challenge bits at one index**: from `h1^t ≡ α` and `h1^{t'} ≡ α·h2 (mod N)` follows `h1^{t'} ≡ h1^t · h2`,
and for a unit `α` and `t ≤ t'`: `h2 ≡ h1^{t'−t}` — `h2` lies in the subgroup generated by `h1` -/
theorem dln_both_bits_extract {n h1 h2 a : Int} {t t' : Nat}
    (e0 : h1 ^ t ≡ a [ZMOD n]) (e1 : h1 ^ t' ≡ a * h2 [ZMOD n]) :
    h1 ^ t' ≡ h1 ^ t * h2 [ZMOD n] ∧ (t ≤ t' → Int.gcd a n = 1 → h2 ≡ h1 ^ (t' - t) [ZMOD n]) :=
  dln_extract e0 e1

/-! ## range bounds: what the interval checks reject -/

/-- `s1 ≤ q³` bounds the plaintext: if `s1 = e·m + α` over the integers with `e ≥ 1`, `α ≥ 0` then `m ≤ q³` -/
theorem range_accept_bounds_plaintext (H : HashFn) (q : Nat) (n ntilde h1 h2 c : Int) (pf : RangeProof)
    (h : rangeVerify cur H q n ntilde h1 h2 c pf = .ok true) {e m α : Int}
    (hs : pf.s1 = e * m + α) (hα : 0 ≤ α) (he : 1 ≤ e) : m ≤ (q : Int) ^ 3 := by
  have hs1 := (range_accept_implies H q n ntilde h1 h2 c pf h).2.2.2.2.2.2.2.2.2.2.1
  exact le_of_mul_add_le hs hα he hs1 (by positivity)

/-- **a plaintext beyond `q³` is rejected**: the proof that `ProveRangeAlice` (any hash `H`, any coins) builds for
`m > q³` is accepted by no verifier call (any hash `H'`, any public inputs) for the same `q`, unless the prover's own
challenge was `0` -/
theorem range_rejects_large_plaintext (H H' : HashFn) (q n c ntilde h1 h2 m r alpha beta gamma rho : Nat)
    (pf : RangeProof) (hp : rangeProve H q n c ntilde h1 h2 m r alpha beta gamma rho = .ok pf)
    (hm : q ^ 3 < m) (he : 1 ≤ rangeChallenge H q n c pf.z pf.u pf.w)
    (n' ntilde' h1' h2' c' : Int) : rangeVerify cur H' q n' ntilde' h1' h2' c' pf ≠ .ok true := by
  intro h
  have hs1 := (range_accept_implies H' q n' ntilde' h1' h2' c' pf h).2.2.2.2.2.2.2.2.2.2.1
  unfold rangeProve at hp
  injection hp with hp
  subst hp
  dsimp only at hs1 he
  have : q ^ 3 < rangeChallenge H q n c
      ((modPow h1 m ntilde * modPow h2 rho ntilde % ntilde : Nat) : Int)
      ((modPow (n + 1) alpha (n * n) * modPow beta n (n * n) % (n * n) : Nat) : Int)
      ((modPow h1 alpha ntilde * modPow h2 gamma ntilde % ntilde : Nat) : Int) * m + alpha :=
    lt_of_lt_of_le hm (le_trans (Nat.le_mul_of_pos_left m he) (Nat.le_add_right _ _))
  have : ((q ^ 3 : Nat) : Int) < _ := Int.ofNat_lt.2 this
  push_cast at this hs1
  omega

section bobrej
variable {P : Type} (C : Curve P)

/-- **a multiplier beyond `q³` is rejected**: the proof `ProveBob`/`ProveBobWC` builds for `x > q³` is accepted by no
verifier call on the same curve, unless the prover's own challenge was `0` -/
theorem bob_rejects_large_multiplier (H H' : HashFn) (sess sess' : Bytes) (n ntilde h1 h2 c1 c2 x y r : Nat)
    (X : Option ECPoint) (k : BobCoins) (pf : BobProof) (u : Option ECPoint)
    (hp : bobProve C H sess n ntilde h1 h2 c1 c2 x y r X k = .ok (pf, u))
    (hx : C.q ^ 3 < x) (he : 1 ≤ bobChallenge C H sess n c1 c2 (proverXU X u) pf)
    (n' ntilde' h1' h2' c1' c2' : Int) (xu' : Option (ECPoint × ECPoint)) :
    bobVerify C H' cur sess' n' ntilde' h1' h2' c1' c2' pf xu' ≠ .ok true := by
  intro h
  have hs1 := (bob_accept_implies C H' sess' n' ntilde' h1' h2' c1' c2' pf xu' h).2.2.2.2.2.2.2.2.2.2.2.2.2.2.2.2.2.2.1
  rw [(bobProve_s1_t1 C H sess n ntilde h1 h2 c1 c2 x y r X k pf u hp).1] at hs1
  have : C.q ^ 3 < bobChallenge C H sess n c1 c2 (proverXU X u) pf * x + k.alpha :=
    lt_of_lt_of_le hx (le_trans (Nat.le_mul_of_pos_left x he) (Nat.le_add_right _ _))
  have : ((C.q ^ 3 : Nat) : Int) < _ := Int.ofNat_lt.2 this
  push_cast at this hs1
  omega

/-- **a mask beyond `q⁷` is rejected** -/
theorem bob_rejects_large_mask (H H' : HashFn) (sess sess' : Bytes) (n ntilde h1 h2 c1 c2 x y r : Nat)
    (X : Option ECPoint) (k : BobCoins) (pf : BobProof) (u : Option ECPoint)
    (hp : bobProve C H sess n ntilde h1 h2 c1 c2 x y r X k = .ok (pf, u))
    (hy : C.q ^ 7 < y) (he : 1 ≤ bobChallenge C H sess n c1 c2 (proverXU X u) pf)
    (n' ntilde' h1' h2' c1' c2' : Int) (xu' : Option (ECPoint × ECPoint)) :
    bobVerify C H' cur sess' n' ntilde' h1' h2' c1' c2' pf xu' ≠ .ok true := by
  intro h
  have ht1 := (bob_accept_implies C H' sess' n' ntilde' h1' h2' c1' c2' pf xu' h).2.2.2.2.2.2.2.2.2.2.2.2.2.2.2.2.2.2.2.2.2.1
  rw [(bobProve_s1_t1 C H sess n ntilde h1 h2 c1 c2 x y r X k pf u hp).2] at ht1
  have : C.q ^ 7 < bobChallenge C H sess n c1 c2 (proverXU X u) pf * y + k.gamma :=
    lt_of_lt_of_le hy (le_trans (Nat.le_mul_of_pos_left y he) (Nat.le_add_right _ _))
  have : ((C.q ^ 7 : Nat) : Int) < _ := Int.ofNat_lt.2 this
  push_cast at this ht1
  omega

end bobrej

/-- **meaning of the `facproof` bound**: acceptance gives `z1, z2 < q³·⌊√N0⌋` (`isqrt` is the model of `big.Int.Sqrt`).
For an honest response `z = e·p + α` (`α ≥ 0` the mask) this bounds `e·p`, hence `p < q³·⌊√N0⌋` as soon as `e ≥ 1`, and
`p < q²·√N0` for a typical challenge `e ≈ q`. So the check only excludes a factor more than about `q²` above `√N0`,
equivalently a cofactor more than `q²` below it: with `|q| = 256` a factor just above `√N0 / 2^512` can pass, and the
ratio of two passing factors can be as large as `q⁴`. This slack is inherent in the proof system as published (the
interval is `√N0 · 2^{ℓ+ε}` with `ℓ = |q|`, `ε = 2|q|`, which the code writes as `q³·√N0`); it is not a defect of
the code. -/
theorem fac_bound_meaning (H : HashFn) (q : Nat) (sess : Bytes) (n0 ncap s t : Int) (pf : FacProof)
    (h : facVerify cur H q sess n0 ncap s t pf = .ok true) :
    let bound : Int := (q : Int) ^ 3 * isqrt n0.toNat
    pf.z1 < bound ∧ pf.z2 < bound ∧
    (∀ e p α : Int, pf.z1 = e * p + α → 0 ≤ α → e * p < bound ∧ (1 ≤ e → p < bound)) ∧
    (∀ e p α : Int, pf.z2 = e * p + α → 0 ≤ α → e * p < bound ∧ (1 ≤ e → p < bound)) := by
  intro bound
  obtain ⟨-, -, ⟨hz10, hz1⟩, ⟨hz20, hz2⟩, -⟩ := fac_accept_implies H q sess n0 ncap s t pf h
  have key : ∀ z e p α : Int, z < bound → 0 ≤ z → z = e * p + α → 0 ≤ α →
      e * p < bound ∧ (1 ≤ e → p < bound) := by
    intro z e p α hz hz0 hs hα
    refine ⟨by omega, fun he => ?_⟩
    have := le_of_mul_add_le hs hα he (le_refl z) hz0
    omega
  exact ⟨hz1, hz2, fun e p α => key _ e p α hz1 hz10, fun e p α => key _ e p α hz2 hz20⟩

/-! ## the Paillier key proof (`paillier.Proof`) -/

/-- acceptance of `Proof.Verify`: the modulus is positive, no prime below 1000 divides it, the proof has 13 entries
and `y_i^N ≡ x_i (mod N)` for the 13 values `x_i` of `GenerateXs` (an `N`-th root of 13 hash-derived units exists only
if `gcd(N, φ(N)) = 1`, up to probability; that statistical step is not stated) -/
theorem paillierProof_accept_implies (cfg : ProofCfg) (H : HashFn) (pf : List Int) (pkN k : Int) (pub : ECPoint)
    (h : proofVerify cfg H pf pkN k pub = .ok true) :
    0 < pkN ∧ (∀ p : Nat, p.Prime → p < 1000 → ¬ (p : Int) ∣ pkN) ∧ pf.length = 13 ∧
    ∃ xs, generateXs H 13 k pkN pub = some xs ∧
      ∀ i, i < 13 → (pf.getD i 0) ^ pkN.toNat ≡ xs.getD i 0 [ZMOD pkN] := by
  unfold proofVerify at h
  split at h
  · cases h
  · rename_i hsp
    simp only [List.any_eq_true, beq_iff_eq, not_exists, not_and] at hsp
    split at h
    · split at h <;> cases h
    · rename_i xs hxs
      split at h
      · cases h
      · rename_i hlen
        simp only [bne_iff_ne, ne_eq, not_not, proofIters] at hlen
        simp only [Outcome.ok.injEq, List.all_eq_true, List.mem_range, proofIters] at h
        have hpos : 0 < pkN := generateXs_some_pos (by decide) hxs
        refine ⟨hpos, fun p hp hlt hd => ?_, hlen, xs, hxs, fun i hi => ?_⟩
        · exact hsp p ((mem_smallPrimes_iff p).2 ⟨hp, hlt⟩) (Int.emod_eq_zero_of_dvd hd)
        · have hi' := h i hi
          split at hi'
          · rename_i y hy
            rw [beq_iff_eq] at hi'
            have e := goExp_modEq_nonneg (le_of_lt hpos) hy
            rw [natAbs_cast_of_pos hpos, ← hi'] at e
            exact e.symm.trans (Int.mod_modEq _ _)
          · cases hi'

/-- `smallPrimes` is exactly the set of primes below 1000 -/
theorem smallPrimes_spec (p : Nat) : p ∈ smallPrimes ↔ p.Prime ∧ p < 1000 := mem_smallPrimes_iff p

/-! ## Paillier operations refuse values outside their domain -/

/-- re-export of `C14.guards`: `Encrypt`, `HomoMult`, `HomoAdd`, `Decrypt` report an error exactly for out-of-range
(or, for `Decrypt`, non-unit) input; none of them wraps a value modulo `N` or `N²` -/
theorem paillier_guards (n : Nat) (sk : Paillier.PrivateKey) (m c c1 c2 : Int) (x : Nat) :
    ((∃ t, Paillier.encryptWith n m x = .err t) ↔ (m < 0 ∨ m ≥ n)) ∧
    ((∃ t, Paillier.homoMult n m c1 = .err t) ↔ (m < 0 ∨ m ≥ n ∨ c1 < 0 ∨ c1 ≥ (n * n : Nat))) ∧
    ((∃ t, Paillier.homoAdd n c1 c2 = .err t) ↔
      (c1 < 0 ∨ c1 ≥ (n * n : Nat) ∨ c2 < 0 ∨ c2 ≥ (n * n : Nat))) ∧
    ((∃ t, Paillier.decrypt sk c = .err t) ↔
      (c < 0 ∨ c ≥ (sk.n * sk.n : Nat) ∨ Nat.gcd c.toNat (sk.n * sk.n) > 1)) :=
  C14.guards n sk m c c1 c2 x

/-! ## the hypotheses are satisfiable: every verifier accepts some proof

Each `example` runs the model's prover on toy numbers with a trivial hash and the kernel evaluates the verifier to
`.ok true` (`decide`). Moduli: `N = 899 = 29·31`, `Ñ = 77 = 7·11` with `h1 = 2`, `h2 = 4`, curve order `q = 5`. -/

/-- a trivial "hash": every digest is the byte `3` (the theorems hold for every `H`) -/
def H0 : HashFn := fun _ => [3]
/-- a second one, to obtain a different challenge -/
def H1 : HashFn := fun _ => [4]
theorem fact5 : Fact (Nat.Prime 5) := ⟨by norm_num⟩
attribute [local instance] fact5
/-- the lawful toy curve `ℤ/5` in the exponent representation (`Lemmas/CurveLaw.lean`) -/
def C5 : Curve (ZMod 5) := @zmodCurve 5 fact5

theorem C5_lawful : C5.Lawful := @zmodCurve_lawful 5 fact5

/-- Alice's range proof for the plaintext `2` encrypted as `105075 = Enc(2; 2)` -/
example : ((rangeProve H0 5 899 105075 77 2 4 2 2 10 3 5 6).bind fun pf =>
    rangeVerify cur H0 5 899 77 2 4 105075 pf) = .ok true := by decide

/-- Bob's proof without and with the point check: `c2 = c1^2 · Enc(4; 2)`, `X = 2·G` -/
example : ((bobProve C5 H0 [] 899 77 2 4 105075 798099 2 4 2 none ⟨10, 3, 4, 5, 6, 3, 20⟩).bind fun (pf, _) =>
    bobVerify C5 H0 cur [] 899 77 2 4 105075 798099 pf none) = .ok true := by decide

example : ((bobProve C5 H0 [] 899 77 2 4 105075 798099 2 4 2 (some (2, 0)) ⟨10, 3, 4, 5, 6, 3, 20⟩).bind fun (pf, u) =>
    bobVerify C5 H0 cur [] 899 77 2 4 105075 798099 pf (u.map fun U => ((2, 0), U))) = .ok true := by decide

set_option maxRecDepth 100000 in
/-- the Paillier-Blum proof for `N = 77 = 7·11` with the non-residue `W = 2` -/
example : ((modProve H0 [] 77 7 11 2).bind fun (w, xs, a, b, zs) =>
    modVerify cur H0 [] w (xs.map Int.ofNat) a b (zs.map Int.ofNat) 77) = .ok true := by decide

/-- the no-small-factor proof for `N0 = 77`, `NCap = 899`, `s = 4`, `t = 2` (the response `v` is `−63`) -/
example : ((facProve H0 5 [] 77 899 4 2 7 11 ⟨10, 11, 3, 4, 5, 6, 7, 8⟩).bind fun pf =>
    facVerify cur H0 5 [] 77 899 4 2 pf) = .ok true := by decide

set_option maxRecDepth 100000 in
/-- the discrete-log proof for `h2 = 16 = h1^2`, `h1 = 4` modulo `77` -/
example : ((dlnProve H0 4 16 2 3 5 77 (List.replicate 128 2)).bind fun (al, t) =>
    dlnVerify H0 (al.map Int.ofNat) (t.map Int.ofNat) 4 16 77) = .ok true := by decide

/-- Schnorr for `X = 2·G` and Schnorr-V for `V = 1·R + 1·G`, `R = 2·G` -/
example : ((schnorrProve C5 H0 [] 2 (2, 0) 3).bind fun (al, t) =>
    schnorrVerify C5 H0 cur [] (2, 0) al t) = .ok true := by decide

example : ((schnorrVProve C5 H0 [] (3, 0) (2, 0) 1 1 1 1).bind fun (al, t, u) =>
    schnorrVVerify C5 H0 cur [] (3, 0) (2, 0) al t u) = .ok true := by decide

/-- `1009·1013` has no prime factor below 1000 (by reasoning: `decide` on the trial-division table is slow) -/
theorem no_small_factor_1009_1013 :
    smallPrimes.any (fun prm => ((1009 * 1013 : Int)) % (prm : Int) == 0) = false := by
  rw [Bool.eq_false_iff]
  simp only [ne_eq, List.any_eq_true, beq_iff_eq, not_exists, not_and]
  intro p hp hd
  obtain ⟨hpp, hlt⟩ := (mem_smallPrimes_iff p).1 hp
  have h1 : (p : Int) ∣ ((1009 * 1013 : Nat) : Int) := by
    have := Int.dvd_of_emod_eq_zero hd
    exact_mod_cast this
  have h2 : p ∣ 1009 * 1013 := Int.natCast_dvd_natCast.1 h1
  rcases (Nat.Prime.dvd_mul hpp).1 h2 with h | h
  · have := (Nat.prime_dvd_prime_iff_eq hpp (by norm_num : Nat.Prime 1009)).1 h
    omega
  · have := (Nat.prime_dvd_prime_iff_eq hpp (by norm_num : Nat.Prime 1013)).1 h
    omega

set_option maxRecDepth 100000 in
/-- `paillier.Proof` for `N = 1009·1013`: every `x_i` is `3`, its `N`-th root is `1008729` -/
example : proofVerify ⟨true⟩ H0 (List.replicate 13 1008729) (1009 * 1013) 1 (1, 2) = .ok true := by
  unfold proofVerify
  rw [no_small_factor_1009_1013]
  decide

/-! ### … and the extraction and rejection lemmas apply -/

theorem C5_torsion : ∀ pX : ZMod 5, C5.smul C5.q pX = C5.zero := by decide

/-- two accepting Schnorr transcripts for `X = 2·G` with the same commitment `α = 3·G` and challenges `3 ≠ 4`
(responses `4` and `1`): the extracted scalar `(4 − 1)·(3 − 4)⁻¹ mod 5` is `2` -/
example : ∃ pX, C5.lift (2, 0) = some pX ∧ pX = C5.smul 2 C5.base := by
  have := schnorr_two_transcripts C5 C5_lawful H0 H1 [] [] (2, 0) (3, 0) 4 1
    (by decide) (by decide) (by decide) (fun pX _ => C5_torsion pX)
  have c0 : schnorrChallenge C5 H0 [] (2, 0) (3, 0) = 3 := by decide
  have c1 : schnorrChallenge C5 H1 [] (2, 0) (3, 0) = 4 := by decide
  have hinv : (((3 : Nat) : ZMod 5) - ((4 : Nat) : ZMod 5))⁻¹ = 4 := inv_eq_of_mul_eq_one_right (by decide)
  have h : ((((4 : Nat) : ZMod 5) - ((1 : Nat) : ZMod 5)) * 4).val = 2 := by decide
  rw [c0, c1] at this
  change ∃ pX, _ ∧ pX = C5.smul (((((4 : Nat) : ZMod 5) - ((1 : Nat) : ZMod 5)) *
    (((3 : Nat) : ZMod 5) - ((4 : Nat) : ZMod 5))⁻¹).val) C5.base at this
  rwa [hinv, h] at this

example : (16 : Int) ≡ 4 ^ (4 - 2) [ZMOD 77] :=
  (dln_both_bits_extract (n := 77) (h1 := 4) (h2 := 16) (a := 16) (t := 2) (t' := 4) (by decide) (by decide)).2
    (by decide) (by decide)

/-- `m = 126 > 5³`: the prover's challenge is `3 ≥ 1`, the proof is rejected -/
example : ∀ pf, rangeProve H0 5 899 105075 77 2 4 126 2 10 3 5 6 = .ok pf →
    rangeVerify cur H0 5 899 77 2 4 105075 pf ≠ .ok true := fun pf hp =>
  range_rejects_large_plaintext H0 H0 5 899 105075 77 2 4 126 2 10 3 5 6 pf hp (by decide)
    (by cases hp; decide) _ _ _ _ _

example : ∀ pf u, bobProve C5 H0 [] 899 77 2 4 105075 798099 126 4 2 none ⟨10, 3, 4, 5, 6, 3, 20⟩ = .ok (pf, u) →
    bobVerify C5 H0 cur [] 899 77 2 4 105075 798099 pf none ≠ .ok true := fun pf u hp =>
  bob_rejects_large_multiplier C5 H0 H0 [] [] 899 77 2 4 105075 798099 126 4 2 none _ pf u hp (by decide)
    (by cases hp; decide) _ _ _ _ _ _ _

example : ∀ pf u, bobProve C5 H0 [] 899 77 2 4 105075 798099 2 78126 2 none ⟨10, 3, 4, 5, 6, 3, 20⟩ = .ok (pf, u) →
    bobVerify C5 H0 cur [] 899 77 2 4 105075 798099 pf none ≠ .ok true := fun pf u hp =>
  bob_rejects_large_mask C5 H0 H0 [] [] 899 77 2 4 105075 798099 2 78126 2 none _ pf u hp (by decide)
    (by cases hp; decide) _ _ _ _ _ _ _

end TssVerif.C11
