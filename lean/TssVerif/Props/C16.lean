import TssVerif.Core.Commit
/-! # C16 — commitments bind; hash inputs are framed unambiguously

Property theorems only (helper lemmas live in `TssVerif/Lemmas`). -/
namespace TssVerif.C16
open TssVerif

/-- the tree before the `fix:` commits e97481f / 1f35a34 -/
def oldParse : ParseCfg := { rejectNegative := false, keepTrailing := false }
/-- the tree as it is now (the configuration the driver executes) -/
def curParse : ParseCfg := { rejectNegative := true, keepTrailing := true }

/-- **K4 witness (pre-fix tree)**: a length prefix of 2^63 made the parser slice with a negative bound. -/
theorem parse_panics_witness_before_fix :
    parseSecretsCfg oldParse [(2 ^ 63 : Int), 7] = .panic "slice-bounds" := by decide

/-- **B2 witness (pre-fix tree)**: `[[7],[]]` packs to `(1,7,0)` and parsed back to `[[7]]`. -/
theorem roundtrip_fails_witness_before_fix :
    builderSecrets [[7], []] = .ok [1, 7, 0] ∧ parseSecretsCfg oldParse [1, 7, 0] = .ok [[7]] := by decide

/-- the same inputs on the current tree -/
theorem witnesses_repaired :
    parseSecretsCfg curParse [(2 ^ 63 : Int), 7] = .err "invalid-length" ∧
    parseSecretsCfg curParse [1, 7, 0] = .ok [[7], []] := by decide

end TssVerif.C16
