import TssVerif.Core.Commit
import TssVerif.Lemmas.C16
/-! # C16 — commitments bind; hash inputs are framed unambiguously

Property theorems only (helper lemmas live in `TssVerif/Lemmas/C16.lean`). -/
namespace TssVerif.C16
open TssVerif

/-- the tree before the `fix:` commits e97481f / 1f35a34 -/
def oldParse : ParseCfg := { rejectNegative := false, keepTrailing := false }
/-- the tree as it is now (the configuration the driver executes) -/
def curParse : ParseCfg := { rejectNegative := true, keepTrailing := true }

/-- every element is shorter than 2^64 bytes (true of every byte string a machine can hold) -/
def Short (xs : List Bytes) : Prop := ∀ x ∈ xs, x.length < 2 ^ 64

/-! Note: in `sha512_256i_preimage_injective`, `tagged_preimage_injective` and `commit_binding` the
lambda binders carry an explicit `(n : Nat)` annotation; without it the statements do not elaborate
(`fun n => (n : Int)` makes `n : Int` and `ns.map` then expects a `List Int`). Nothing else changed. -/

/-! ## encodings -/

theorem le64_injective {a b : Nat} (ha : a < 2 ^ 64) (hb : b < 2 ^ 64) (h : le64 a = le64 b) : a = b := by
  exact C16L.le64_inj ha hb h

theorem natBytes_roundtrip (n : Nat) : bytesToNat (natToBytesBE n) = n := by
  exact C16L.bytesToNat_natToBytesBE n

theorem natBytes_injective {n m : Nat} (h : natToBytesBE n = natToBytesBE m) : n = m := by
  exact C16L.natToBytesBE_inj h

/-- Go drops the sign: `-5` and `5` have the same bytes (recorded behaviour; every caller passes
non-negative values). -/
theorem neg_collides_witness : intToBytesBE (-5) = intToBytesBE 5 := by
  rfl

/-! ## framing -/

/-- **the framing is injective**: different count, different split points, different bytes give
different hash inputs (decoding runs from the end: the length is a suffix of each element). -/
theorem frame_injective {xs ys : List Bytes} (hx : Short xs) (hy : Short ys)
    (h : frame xs = frame ys) : xs = ys := by
  exact C16L.frame_inj hx hy h

/-- integer version, as used by `SHA512_256i` on non-negative integers -/
theorem sha512_256i_preimage_injective {ns ms : List Nat}
    (hn : Short (ns.map natToBytesBE)) (hm : Short (ms.map natToBytesBE))
    (h : frame (ns.map fun (n : Nat) => intToBytesBE (n : Int)) = frame (ms.map fun (n : Nat) => intToBytesBE (n : Int))) :
    ns = ms := by
  rw [C16L.map_intToBytesBE_natCast, C16L.map_intToBytesBE_natCast] at h
  exact C16L.frame_natBytes_inj hn hm h

/-- two different input sequences with the same digest exhibit a collision of the hash itself,
for every hash function `H` -/
theorem sha512_256_injective_or_collision (H : HashFn) {xs ys : List Bytes} (hx : Short xs) (hy : Short ys)
    (hxe : xs ≠ []) (hye : ys ≠ []) (hne : xs ≠ ys)
    (h : sha512_256With H xs = sha512_256With H ys) : ∃ a b : Bytes, a ≠ b ∧ H a = H b := by
  have hx' : xs.isEmpty = false := by cases xs <;> simp_all
  have hy' : ys.isEmpty = false := by cases ys <;> simp_all
  simp only [sha512_256With, hx', hy', Bool.false_eq_true, if_false, Option.some.injEq] at h
  exact ⟨frame xs, frame ys, fun he => hne (C16L.frame_inj hx hy he), h⟩

/-- the tagged pre-image determines the tag digest and the input sequence, for every hash whose
digests have one fixed length -/
theorem tagged_preimage_injective (H : HashFn) (hlen : ∀ x y, (H x).length = (H y).length)
    {tag tag' : Bytes} {ns ms : List Nat}
    (hn : Short (ns.map natToBytesBE)) (hm : Short (ms.map natToBytesBE))
    (h : taggedPreimage H tag (ns.map fun (n : Nat) => (n : Int)) = taggedPreimage H tag' (ms.map fun (n : Nat) => (n : Int))) :
    H (frame [tag]) = H (frame [tag']) ∧ ns = ms := by
  unfold taggedPreimage at h
  rw [C16L.map_map_intToBytesBE_natCast, C16L.map_map_intToBytesBE_natCast,
    List.append_assoc, List.append_assoc] at h
  obtain ⟨h1, h2⟩ := List.append_inj h (hlen _ _)
  obtain ⟨_, h3⟩ := List.append_inj h2 (hlen _ _)
  exact ⟨h1, C16L.frame_natBytes_inj hn hm h3⟩

/-! ## commitments -/

theorem commit_opens (H : HashFn) (r : Int) (secrets : List Int) :
    commitVerifyWith H (commitWith H r secrets).1 (commitWith H r secrets).2 = .ok true := by
  simp [commitWith, commitVerifyWith, sha512_256iWith]

theorem decommit_returns_secrets (H : HashFn) (r : Int) (secrets : List Int) :
    decommitWith H (commitWith H r secrets).1 (commitWith H r secrets).2 = .ok (some secrets) := by
  simp [decommitWith, commitWith, commitVerifyWith, sha512_256iWith]

/-- **binding reduces exactly to a collision**: two different openings of one commitment (changed,
added, removed or re-grouped elements) give two different byte strings with the same digest value,
for every hash function -/
theorem commit_binding (H : HashFn) (c : Nat) {d d' : List Nat}
    (hd : Short (d.map natToBytesBE)) (hd' : Short (d'.map natToBytesBE)) (hne : d ≠ d')
    (h1 : commitVerifyWith H c (d.map fun (n : Nat) => (n : Int)) = .ok true)
    (h2 : commitVerifyWith H c (d'.map fun (n : Nat) => (n : Int)) = .ok true) :
    ∃ a b : Bytes, a ≠ b ∧ bytesToNat (H a) = bytesToNat (H b) := by
  exact C16L.commit_binding_aux H c hd hd' hne h1 h2

/-- `Verify` on an empty decommitment dereferences a nil hash (callers guard with `ValidateBasic`) -/
theorem commit_verify_empty_panics (H : HashFn) (c : Nat) :
    commitVerifyWith H c [] = .panic "nil-hash-cmp" := by
  rfl

/-! ## parts builder and parser -/

/-- **the parser is total on the current tree**: no input makes it panic -/
theorem parse_never_panics (secrets : List Int) (t : String) :
    parseSecretsCfg curParse secrets ≠ .panic t := by
  unfold parseSecretsCfg
  split
  · simp
  · exact C16L.parseLoop_cur_no_panic curParse rfl secrets t _ _ _ _ _ (Int.le_refl 0)

/-- **K4 witness (pre-fix tree)**: a length prefix of 2^63 made the parser slice with a negative bound -/
theorem parse_panics_witness_before_fix :
    parseSecretsCfg oldParse [(2 ^ 63 : Int), 7] = .panic "slice-bounds" := by decide

/-- **B2 witness (pre-fix tree)**: `[[7],[]]` packs to `(1,7,0)` and parsed back to `[[7]]` -/
theorem roundtrip_fails_witness_before_fix :
    builderSecrets [[7], []] = .ok [1, 7, 0] ∧ parseSecretsCfg oldParse [1, 7, 0] = .ok [[7]] := by decide

/-- the same inputs on the current tree -/
theorem witnesses_repaired :
    parseSecretsCfg curParse [(2 ^ 63 : Int), 7] = .err "invalid-length" ∧
    parseSecretsCfg curParse [1, 7, 0] = .ok [[7], []] := by decide

/-- the builder refuses exactly: more than `partsCap` parts, or a part longer than `maxPartSize` -/
theorem builder_refuses_iff (parts : List (List Int)) :
    (∃ s, builderSecrets parts = .ok s) ↔ (parts.length ≤ partsCap ∧ ∀ p ∈ parts, p.length ≤ maxPartSize) := by
  exact C16L.builderSecrets_ok_iff parts

/-- **round-trip**: whatever the builder packs (within its limits, at least two elements in total)
the parser returns unchanged, including empty parts anywhere -/
theorem builder_roundtrip (parts : List (List Int)) (h1 : parts.length ≤ partsCap)
    (h2 : ∀ p ∈ parts, p.length ≤ maxPartSize) (h3 : 2 ≤ (parts.map fun p => p.length + 1).sum) :
    ∃ s, builderSecrets parts = .ok s ∧ parseSecretsCfg curParse s = .ok parts := by
  exact C16L.builder_roundtrip_aux parts h1 h2 h3

/-- an oversized or negative or non-int64 length prefix in first position is an error -/
theorem parse_rejects_bad_first_length (v : Int) (rest : List Int) (hr : rest ≠ [])
    (hv : v < 0 ∨ (maxPartSize : Int) < v) :
    ∃ t, parseSecretsCfg curParse (v :: rest) = .err t := by
  exact C16L.parse_rejects_bad_first v rest hr hv

/-! ## hypotheses are satisfiable -/
example : Short [[0x24, 0x00], [], [0x01]] := by
  intro x hx; simp at hx; rcases hx with rfl | rfl | rfl <;> decide

end TssVerif.C16
