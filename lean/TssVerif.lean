-- Root of the `TssVerif` library: executable model (Core), regenerated facts (Gen),
-- helper lemmas (Lemmas), property theorems (Props).
import TssVerif.Core.Ops
import TssVerif.Props.C16
import TssVerif.Props.C14
import TssVerif.Props.C15
import TssVerif.Props.C17
import TssVerif.Props.C06
import TssVerif.Props.C13
import TssVerif.Props.C12
import TssVerif.Props.GenObligations
import TssVerif.Props.C10
import TssVerif.Props.C11
import TssVerif.Props.C07
import TssVerif.Props.C08
import TssVerif.Props.C09
import TssVerif.Props.C01
import TssVerif.Props.C02
import TssVerif.Props.C03
import TssVerif.Props.C04
import TssVerif.Props.C05
import TssVerif.Props.C18
import TssVerif.Props.C19
import TssVerif.Props.C20
import TssVerif.Props.C04b
import TssVerif.Props.C05b
import TssVerif.Props.C09b
import TssVerif.Props.C04c
