#!/usr/bin/env python3
"""Regenerates MANIFEST.json from the table below (kept as a script so the manifest stays consistent)."""
import json, subprocess

CHECKS = {
 # id: (claimed?, level text, level note)
 "C01": ("Lean theorems about the executable signing arithmetic of the model: Lagrange weights of PrepareForSigning sum to the key (never hitting a nil inverse for ids distinct mod q), the public weighted points bigWs equal lambda_j*X_j and add up to the group key (Props/C01b), the transcript function (theta_j, Gamma_j, s_j -> R, s) equals finalize at R = k^-1 G, finalize is sound for EVERY input (whatever is emitted verifies, low S, 32-byte R and S, Signature = R||S, echo) and complete incl. the low-S flip, end-to-end threshold_sign_valid; tie = whole signing runs re-judged by the model from the broadcast transcript, stdlib + model verification, btcec + model key recovery",
         "curve lawfulness assumed for secp256k1 (tested differentially); R.x >= q (probability 2^-128) and fullBytesLen outside [|m|, 32] make honest runs fail, as the model proves and the harness observes; digest >= q refusal is asserted on the Go side only"),
 "C02": ("Lean theorems: share algebra S*B = R + h*A on any abelian group incl. cofactor-cleared nonces, little-endian helper round-trip (and its truncation behaviour); the RFC 8032 verifier of the model (own SHA-512 and curve arithmetic) judges every signature; tie = whole EdDSA keygen+signing runs under all delivery strategies, Go stdlib ed25519 oracle",
         "edwards25519 lawfulness assumed (tested differentially); the point encode/decode round-trip of the concrete curve is tested, not proved"),
 "C03": ("Lean theorems for every lawful curve: x_j*G = X_j, public points on one degree-t polynomial with constant term PK = sum u_i*G, any t+1 interpolate (weights and reconstruct), and Feldman acceptance alone implies consistency for arbitrary dealt values; tie = whole key-generation runs (both curves, all strategies) with the C03 clauses asserted on every party's save data",
         "curve lawfulness assumed for the concrete curves; Paillier/ring-Pedersen arrays are compared across parties by direct assertion"),
 "C04": ("Lean theorems: resharing preserves the secret and the public key, the V_0 = PK check is sound for arbitrary old-committee input, chains preserve the key; the two-committee round engine (Engine2, resharing tables of both curves): over every reachable state of the closed old+new system (any order, duplicates, pre-Start) no old member ends and no new member saves before every new member has acknowledged, an acknowledgement follows all shares, a cut run leaves every old member intact, schedule independence, pre-Start = post-Start, no deadlock; the same ordering is asserted after EVERY delivery of every run (every prefix is a cut point); the new member's share-side checks (BlameRs: every announcement compared, de-commitment, share check, V_0 = y) proved for any curve; tie = whole resharing runs (both curves, proofs on/off, pre-Start, one slow packet per message type, chains, sign-after) with every member's engine trace compared with Engine2, and tampered / shifted-key runs of both curves re-judged per new member by BlameRs",
         "the cryptographic bodies of the resharing rounds are the C03/C10-C15 models plus run-level assertions; ECDSA resharing verifies the new members' factorisation proofs after the acknowledgements (R1, see DESIGN.md)"),
 "C05": ("Lean theorems about the round-level blame models (EdDSA keygen round 3, EdDSA signing round 3, ECDSA keygen rounds 2, 3 and 4, the parameter part of an ECDSA new member's resharing round 4; ECDSA signing rounds 2, 3, 5, 7, 9 — Props/C05d, C05e; the fac-proof check of ECDSA resharing round 5 — Props/C05f): exactly the failing peers are named, never the party itself or a peer that sent nothing; an altered value covered by the commitment, the Schnorr proof or the Feldman check is blamed; honest peers pass (from C10/C15/C16), hence a single deviator is named exactly; the rounds return; accepted shares are consistent; plus the no-bad-output facts of C01/C03/C16; tie = fault injection over all six protocols (one alteration per message field found by protobuf reflection, every position, whole-message replay, acknowledgement forgery in resharing) in child processes, with every modelled round re-judged by the model from the delivered fields (kg_round3, sg_round3, ec_kg_round2/3/4, ec_rs_round4_params, ec_rs_round5_fac, ec_sg_round2/3/5/7/9)",
         "of the ECDSA rounds, key generation rounds 2-4, signing rounds 2, 3, 5, 7, 9 and the parameter part of resharing round 4 are modelled as round functions up to the culprit decision (all verifiers are): for the others (signing finalize, the share side of ECDSA resharing is BlameRs) blame and output validity are direct assertions on injected runs; ONE KNOWN FINDING (KNOWN_FINDINGS.txt): in ECDSA resharing a new member's bad no-small-factor proof is detected only in round 5, after the old committee has erased (key loss for the honest parties); the check prints KNOWN-FINDING for exactly those two failure keys; in signing rounds 2-3 the Go error lists a peer once per failed step, the model once (compared as sets); soundness against adaptive provers is cryptographic and not claimed; after a party has reported an error the caller must stop feeding it messages (the library does not latch failures)"),
 "C06": ("Lean theorems that every modelled verifier/decoder returns (never `panic`) for all field values, with pre-fix crash witnesses, and the modelled round bodies return; model tied to the Go verifiers by verdict agreement on boundary grids over every field of every proof system; protocol level: boundary values in every message field and junk (random/bit-flipped/truncated bytes, wrong/out-of-range/unknown senders, flipped flags, foreign messages) through UpdateFromBytes in whole runs of all six protocols, in child processes under watchdogs, also with a single verifier worker",
         "the wire codec (protobuf) is not modelled: for undecodable bytes the only oracle is 'returns, process alive'; hangs are detected by watchdogs (runtime observation)"),
 "C07": ("Lean theorems about the round-engine model for every table: fixpoint after each update, local confluence, idempotent duplicates, schedule independence up to permutation and duplication, pre-Start = post-Start delivery, ends exactly once, and no_deadlock for the closed n-party system (all-to-all, disciplined tables; hypotheses decided for the four library tables); tie = the behaviour of every party after each event of whole runs under 9 delivery strategies, one slow packet per message type and exhaustive interleavings (EdDSA n=2) equals the model's trace; resharing runs with one slow packet per message type against Engine2",
         "the resharing theorems are C04's (Props/C04b); payload validity is abstracted at this level"),
 "C08": ("Lean theorems: emissions are exactly the canonical per-round prefix once each in order, a round advances only when every requirement is stored with the right flag, wrong-channel copies never advance a round, WaitingFor = exact awaited set for tables without early-return rounds (with the pre-repair over-report witness); tables, routing and constants regenerated from the running code are proved equal to the model's by decide; tie = engine traces with flag-flipped copies injected before/instead/after, routing and wire round-trip assertions on every emitted message",
         "secrecy of message contents is not modelled in Lean: it is checked on every emitted message of every run by comparing every numeric field with the sender's long-term secrets (as integers and modulo the group order) and by requiring every proof response to be as long as its mask; protobuf codec not modelled"),
 "C09": ("Lean theorems: critical sections serialise (any interleaving of k callers' deliveries equals the sequential delivery of the concatenation), queries are transparent and exact, end emitted once; runtime part: whole protocol runs with every Start/Update/WaitingFor call in its own goroutine under the Go race detector, plus gated runs releasing pre-Start deliveries at the same instant as Start(); source-derived part (Props/C09b): lock-discipline facts regenerated from tss/party.go and the six local_party.go on every run (nothing touches the party before the lock, no TryLock, every exit releases it, the wrappers only delegate) are proved to have the shape the serialisation theorems assume",
         "the Go memory model and scheduler are runtime: the race detector observes only the executed interleavings (partial); the lock-discipline facts are syntactic (a go/ast pass over the named functions), not a proof about the Go code"),
 "C10": ("Lean completeness theorems for the proof systems under explicit good-coin predicates; tie = cross-verification: Go-made proofs judged by the Lean verifiers and Lean-made proofs judged by the Go verifiers, plus wire round-trips",
         "completeness is proved for the model; a negligible set of coins (explicit predicate) makes honest proofs fail"),
 "C11": ("Lean theorems: for every verifier, acceptance implies every guard and every verification equation (ranges, gcds, small-prime table, Jacobi, bit lengths, the point relation), plus exact extraction lemmas (Schnorr special soundness, dln both-bits, plaintext/multiplier/mask bounds); tie = both verifiers judge false-statement families produced by the library's provers on bad witnesses and by harness-built transcripts",
         "cryptographic soundness against arbitrary provers is statistical/computational and is not stated; the no-small-factor proof has slack q^4 by design"),
 "C12": ("Lean theorems on challenge pre-image injectivity and response non-malleability (incl. the canonical fourth root of the modulus proof: a negated root is rejected, any other accepted root yields a factor); tie = both verifiers judge every substitution, single-component perturbation (+1, -1, random, zero, swap, additive inverse modulo every modulus of the statement) and every commitment/response shift of accepted proofs; the tail indices of the 80- and 128-fold parts also under processor counts that do not divide the repetition count",
         "collision resistance of SHA-512/256 appears as the alternative conclusion; soundness against adaptive provers not claimed"),
 "C13": ("Lean proof that the MtA exchange of the model (AliceInit, BobMid(WC), AliceEnd(WC) over the Paillier and proof-system models) yields alpha+beta = ab mod q under the no-wrap bound implied by 2048-bit moduli, that shares are produced only behind accepted proof gates, and that altered ciphertexts change the hashed pre-image; tie = whole exchanges run by the library with Alice's last step as an exact op",
         "completeness of the embedded proofs is C10; soundness against adaptive provers not claimed"),
 "C14": ("Lean proof of Paillier correctness, homomorphisms, unit-ness, freshness, exact guards and key shape for Go-shaped definitions (modPow, ModInverse as Option); tie = exact ops on vendored and generated keys, CRT oracle",
         "number theory from Mathlib; ProbablyPrime trusted for generated keys"),
 "C15": ("Lean theorems about Feldman VSS for every lawful curve record (verification iff on the polynomial, reconstruction, privacy, refusals); tie = exact ops with scripted coefficients on both curves",
         "concrete curves assumed lawful (tested differentially, not proved)"),
 "C16": ("Lean 4 theorems about the executable model of hash framing, commitments and the parts builder/parser; model tied to /repo by exact differential execution (own SHA-512/256) on exhaustive small tuples and layouts",
         "SHA-512/256 collision resistance appears only as a conclusion"),
 "C17": ("Lean theorems: decoders accept only canonical on-curve coordinates, flatten/unflatten round-trip, abstract cofactor clearing, torsion table by kernel evaluation; every point a modelled round accepts from a message field (commitment openings and proof points of EdDSA/ECDSA keygen, EdDSA/ECDSA signing rounds 3/5/7/9, resharing) lies on the curve, and signing round 9 names the sender of an off-curve pair (Props/C17b, with the pre-repair self-blame witness); tie = exact ops against btcec/dcrd arithmetic through every door, and, for message fields, runs of all six protocols in which one party commits to its values with one pair moved off the curve and opens correctly: every honest recipient must refuse and name the sender (signing runs re-judged by the BlameSg models)",
         "group laws of the two concrete curves are tested against the Go libraries, not proved"),
 "C18": ("Lean theorems: exact characterisation of deriveChild (IL and chain code are the halves of the HMAC, child = parent + IL*G, depth/index/version), offset accumulation over paths on every lawful curve, refusals, Lagrange coefficients sum to one so shifted shares are shares of x + delta, child key = ((off + x) mod q)*G; tie = exact derivation ops (incl. the base58 string) against the model's own HMAC-SHA512/SHA-256/RIPEMD-160, btcutil hdkeychain oracle, published BIP32 vector, derive-then-sign runs",
         "secp256k1 lawfulness assumed; signing under the child key reduces to C01 with the shifted secret (not restated)"),
 "C19": ("Lean theorems: the byte masking yields a candidate of exactly the requested length with two top bits set for every length >= 6, Pocklington for p = 2q+1 (so an emitted pair with prime q has prime p), sampler contracts (ranges, coprimality, Jacobi -1, non-return for n = 1), pre-parameter algebra h2 = h1^alpha, h1 = h2^beta, 2048-bit products; tie = generator calls at many sizes under a watchdog, scripted-reader sampler ops compared exactly with the model, structure of vendored (and in thorough a fresh full-size) pre-parameters",
         "ProbablyPrime trusted; promptness of cancellation and goroutine counts are runtime observations (partial)"),
 "C20": ("Lean theorems: subset re-indexing by key is order-independent and fails exactly when a key is missing, nonces are injective in the nonce sum (and r determines it up to sign), coin segments of consecutive sessions are disjoint; tie = histories of reload/sign/sign-with-offset/aborted-sign operations with a deep snapshot of the stored key data after every operation and pairwise nonce comparison",
         "JSON codec not modelled; the frame property (no write to caller-reachable cells) is observed by snapshots, not proved (partial)"),
}
ALL = ["C%02d" % i for i in range(1, 21)]
PENDING_REASON = "not yet claimed in this commit: the model, theorems and harness for this property are under construction (see DESIGN.md section 8); no technique switch is intended"

def main():
    import os, sys
    claimed = [c for c in ALL if c in CHECKS and os.path.exists("/verif/lean/TssVerif/Props/%s.lean" % c)]
    checks = []
    for c in claimed:
        text, note = CHECKS[c]
        checks.append({
            "property_id": c,
            "quick_cmd": "./check %s quick" % c,
            "thorough_cmd": "./check %s thorough" % c,
            "evidence_file": "/verif/evidence/%s.json" % c,
            "replay_cmd_template": "./check %s --replay {path}" % c,
            "engine": "lean",
            "level_claimed": {"category": "proof", "text": text, "design_ref": "DESIGN.md section 4, %s" % c},
            "level_note": "Lean 4.33 kernel; axioms propext/Classical.choice/Quot.sound only; theorems are about the hand-written model, which is tied to /repo by differential execution (vh + tssdrv); " + note,
            "technique": "Lean 4 machine-checked proof over a hand-written executable model + model/implementation correspondence run",
        })
    hooks = subprocess.run(["git", "-C", "/repo", "log", "--format=%h %s", "--grep=^verif-hook"], stdout=subprocess.PIPE).stdout.decode().split("\n")
    m = {
        "version": 1,
        "setup_cmd": "cd /verif && ./setup.sh",
        "hooks": {
            "guard": "verif",
            "enable": "go build -tags verif (the harness is built with the tag; hook files in /repo, if any, are add-only and carry the build constraint)",
            "baseline_off_cmd": "cd /repo && GOFLAGS=-mod=mod GOPROXY=off GOSUMDB=off GOTOOLCHAIN=local go test -vet=off -count=1 -timeout 25m ./...",
            "source_commits": [h.split()[0] for h in hooks if h.strip()],
            "add_only": True,
        },
        "engines": [
            {"name": "lean", "path": "/verif/lean", "serves_properties": claimed, "kind_free_text": "Lean 4 model (TssVerif/Core), lemmas and theorems (TssVerif/Lemmas, TssVerif/Props), regenerated facts (TssVerif/Gen), driver tssdrv"},
            {"name": "vh", "path": "/verif/harness", "serves_properties": claimed, "kind_free_text": "Go correspondence harness: runs the real code and the Lean driver on the same ops, plus direct property assertions"},
        ],
        "checks": checks,
        "not_applicable": [{"property_id": c, "reason": PENDING_REASON} for c in ALL if c not in claimed],
        "notes": "fix: commits in /repo and their witnesses, and the one open finding (known:, C05, ECDSA resharing round-5 fac proofs), are listed in KNOWN_FINDINGS.txt; DESIGN.md has the trusted base.",
    }
    json.dump(m, open("/verif/MANIFEST.json", "w"), indent=1)
    print("claimed:", claimed)

main()
