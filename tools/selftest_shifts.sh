#!/bin/sh
# Sanity check of C12's shift attacks: with every Fiat-Shamir challenge forced to a constant (temporary edit of
# common.RejectionSample in /repo, reverted afterwards) each commitment/response shift must be ACCEPTED by the Go
# verifiers - i.e. the shifted proofs really satisfy the checked equations and only the challenge stops them.
cd /verif || exit 2
if ! git -C /repo diff --quiet; then echo "/repo has uncommitted changes; refusing"; exit 2; fi
export GOFLAGS=-mod=mod GOPROXY=off GOSUMDB=off GOTOOLCHAIN=local
sed -i '/^func RejectionSample/,/^}/s/e := eHash.Mod(eHash, q)/e := new(big.Int).Mod(big.NewInt(123456789), q)/' /repo/common/hash_utils.go
(cd harness && go build -tags verif -o /verif/.work/vh-const .) && .work/vh-const C12 -tier quick -seed 1 -out .work/c12const.json >/dev/null
git -C /repo checkout -- .; rm -f .work/vh-const
python3 - <<'PY'
import json,collections
d=json.load(open('/verif/.work/c12const.json'))
c=collections.Counter(f['detail'].split(' -> ')[0] for f in d['failures'] if f['kind']=='assert' and '/shift' in f['key'])
for k,v in sorted(c.items()): print("accepted under a constant challenge:", k)
print(len(c), "shift families accepted")
PY
