#!/bin/sh
# usage: save_seed.sh <id> <worktree>  — copies patch.diff, the agent's meta.json and the untracked demo files
id="$1"; w="$2"; d=/verif/seeded/$id
mkdir -p $d; cp $w/patch.diff $d/; cp $w/meta.json $d/meta.agent.json
cd $w && for f in $(git status --short | grep '^??' | awk '{print $2}' | grep '_test.go\|zz_demo'); do cp -r $f $d/$(echo $f | tr '/' '_'); done
ls $d
