#!/usr/bin/env python3
"""mkmeta.py <seeded dir> <property> <caught-by (comma list or 'none')> <notes…>: writes meta.json from the agent's meta"""
import json, sys, os
d, prop, caught = sys.argv[1], sys.argv[2], sys.argv[3]
notes = " ".join(sys.argv[4:])
a = json.load(open(os.path.join(d, "meta.agent.json")))
m = {"breaks_property": prop, "what": a.get("what"), "needs_to_manifest": a.get("needs"), "files": a.get("files"),
     "demonstration": a.get("demo"), "agent_ran": a.get("ran"),
     "confirmed_by_me": "in the agent's scratch worktree: demo fails with patch.diff applied and passes with it reversed; the existing tests of the affected packages pass with the patch",
     "checks_that_catch_it": [] if caught == "none" else caught.split(","), "notes": notes}
json.dump(m, open(os.path.join(d, "meta.json"), "w"), indent=1)
os.remove(os.path.join(d, "meta.agent.json"))
print("ok")
