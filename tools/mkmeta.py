#!/usr/bin/env python3
"""mkmeta.py <seeded dir> <property> <caught-by (comma list or 'none')> <notes…>: writes meta.json from the agent's meta
(meta.agent.json, as saved by save_seed.sh) or updates an existing meta.json"""
import json, sys, os
d, prop, caught = sys.argv[1], sys.argv[2], sys.argv[3]
notes = " ".join(sys.argv[4:])
ap = os.path.join(d, "meta.agent.json")
mp = os.path.join(d, "meta.json")
a = json.load(open(ap if os.path.exists(ap) else mp))
def pick(*ks):
    for k in ks:
        if a.get(k) is not None:
            return a[k]
    return None
m = {"breaks_property": prop, "what": pick("what", "change", "description"),
     "needs_to_manifest": pick("needs_to_manifest", "needs", "trigger"), "files": pick("files"),
     "demonstration": pick("demonstration", "demo"), "agent_ran": pick("agent_ran", "ran", "tests_run"),
     "confirmed_by_me": "in the agent's scratch worktree: demo fails with patch.diff applied and passes with it reversed; the existing tests of the affected packages pass with the patch",
     "checks_that_catch_it": [] if caught == "none" else caught.replace(",", " ").split(), "notes": notes}
extra = {k: v for k, v in a.items() if k not in m and k not in ("needs", "demo", "ran")}
if extra:
    m["agent_other"] = extra
json.dump(m, open(mp, "w"), indent=1)
if os.path.exists(ap):
    os.remove(ap)
print("ok")
