#!/bin/sh
# usage: validate_seed.sh <worktree> <demo test regexp> <demo pkg> "<existing test pkgs>"
# In the agent's scratch worktree (patch applied): demo must FAIL; with the patch reversed it must PASS;
# the existing tests of the named packages must pass with the patch (demo files moved aside).
w="$1"; re="$2"; pkg="$3"; pkgs="$4"
export GOFLAGS=-mod=mod GOPROXY=off GOSUMDB=off GOTOOLCHAIN=local
cd "$w" || exit 2
echo "--- demo WITH change (expect FAIL):"; timeout 600 go test -count=1 -run "$re" $pkg 2>&1 | tail -2
git apply -R patch.diff || exit 2
echo "--- demo WITHOUT change (expect ok):"; timeout 600 go test -count=1 -run "$re" $pkg 2>&1 | tail -2
git apply patch.diff
mkdir -p /tmp/zzdemo.$$; for f in $(git status --short | grep '^??' | awk '{print $2}' | grep _test.go); do mkdir -p /tmp/zzdemo.$$/$(dirname $f); mv $f /tmp/zzdemo.$$/$f; done
echo "--- existing tests WITH change (expect ok):"; timeout 1500 go test -count=1 $pkgs 2>&1 | tail -6
(cd /tmp/zzdemo.$$ && find . -name '*_test.go' | while read f; do mv "$f" "$w/$f"; done); rm -rf /tmp/zzdemo.$$
git checkout -- test 2>/dev/null
