#!/bin/sh
# usage: tools/seeded.sh <seeded/<id> dir> <Cxx> [<Cyy> …]
# Applies the seeded change to /repo, runs the named quick checks, restores /repo. Prints one line per check.
d="$1"; shift
cd /verif || exit 2
if ! git -C /repo diff --quiet; then echo "/repo has uncommitted changes; refusing"; exit 2; fi
git -C /repo apply "$(cd "$d" && pwd)/patch.diff" || { echo "patch does not apply"; exit 2; }
for c in "$@"; do
  out=$(VERIF_SEED=${VERIF_SEED:-1} ./check "$c" ${TIER:-quick} 2>&1); rc=$?
  echo "== $c rc=$rc"
  echo "$out" | grep -E "VIOLATION|KNOWN-FINDING|obligations" | head -4
  echo "$out" | grep -E "^  (assert|diff|broken)" | head -3
done
git -C /repo checkout -- .
git -C /repo status --short | head -3
