#!/usr/bin/env python3
"""Regenerates the seeded-defect table of DESIGN.md (between the seeded-table markers) from seeded/*/meta.json."""
import json, glob, os, re
rows = []
for d in sorted(glob.glob("/verif/seeded/S*/")):
    mp = os.path.join(d, "meta.json")
    if not os.path.exists(mp):
        continue
    m = json.load(open(mp))
    what = (m.get("what") or "").strip().replace("\n", " ").replace("|", "/")
    what = re.split(r"(?<=[.;]) ", what)[0][:230]
    rows.append("| `%s` | %s | %s | %s | %s |" % (os.path.basename(d.rstrip("/")), m.get("breaks_property"),
                ", ".join(m.get("files") or []), ", ".join(m.get("checks_that_catch_it") or []) or "none",
                (m.get("notes") or "").replace("|", "/")))
table = "| seeded change | property | file | caught by (quick tier) | history |\n|---|---|---|---|---|\n" + "\n".join(rows)
p = "/verif/DESIGN.md"
s = open(p).read()
b, e = "<!-- seeded-table-begin -->", "<!-- seeded-table-end -->"
s = s[:s.index(b) + len(b)] + "\n" + table + "\n" + s[s.index(e):]
open(p, "w").write(s)
print(len(rows), "rows")
