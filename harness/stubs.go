package main

import (
	"encoding/json"
	"fmt"
	"os"
)

func childMain(args []string) {
	if len(args) == 3 && args[0] == "C05" {
		c05Child(args[1], args[2])
		return
	}
	if len(args) == 3 && args[0] == "C09" {
		c09Child(args[1], args[2])
		return
	}
	fmt.Fprintln(os.Stderr, "child: unknown task", args)
	os.Exit(2)
}

// replayFile re-runs the ops of a replay file against the current tree and the model.
func replayFile(r *Run, path string) {
	b, err := os.ReadFile(path)
	if err != nil {
		fmt.Fprintln(os.Stderr, err)
		os.Exit(2)
	}
	var rep struct {
		Failures []Failure `json:"failures"`
	}
	if err := json.Unmarshal(b, &rep); err != nil {
		fmt.Fprintln(os.Stderr, err)
		os.Exit(2)
	}
	for _, f := range rep.Failures {
		fmt.Printf("recorded %s key=%s\n  op:   %s\n  go:   %s\n  lean: %s\n  %s\n", f.Kind, f.Key, f.Op, f.Go, f.Lean, f.Detail)
		if f.Kind == "diff" {
			fmt.Printf("  model now: %s\n", r.model.CallLine(f.Op))
			if g, ok := goEval(f.Op); ok {
				fmt.Printf("  impl now:  %s\n", g)
			}
		}
	}
}
