package main

import (
	"bytes"
	"crypto/elliptic"
	"encoding/gob"
	"encoding/json"
	"fmt"
	"math/big"
	"math/rand"
	"strings"

	"github.com/bnb-chain/tss-lib/v2/crypto"
	"github.com/bnb-chain/tss-lib/v2/tss"
)

func init() {
	goOps["ec_new"] = func(a []string) string {
		_, err := crypto.NewECPoint(curveByTag(a[0]), dInt(a[1]), dInt(a[2]))
		if err != nil {
			return "err"
		}
		return "ok"
	}
	goOps["ec_add"] = func(a []string) string {
		c := curveByTag(a[0])
		r, err := dPoint(c, a[1]).Add(dPoint(c, a[2]))
		if err != nil {
			return "err"
		}
		return "ok " + ePoint(r)
	}
	goOps["ec_smul"] = func(a []string) string {
		c := curveByTag(a[0])
		return "ok " + ePoint(dPoint(c, a[1]).ScalarMult(dInt(a[2])))
	}
	goOps["ec_base"] = func(a []string) string {
		return "ok " + ePoint(crypto.ScalarBaseMult(curveByTag(a[0]), dInt(a[1])))
	}
	goOps["ec_8inv8"] = func(a []string) string {
		return "ok " + ePoint(dPoint(tss.Edwards(), a[0]).EightInvEight())
	}
	props["C17"] = runC17
}

// independent on-curve predicate (plain big.Int arithmetic, canonical coordinates)
func refOnCurve(tag string, x, y *big.Int) bool {
	c := curveByTag(tag)
	p := c.Params().P
	if x.Sign() < 0 || y.Sign() < 0 || x.Cmp(p) >= 0 || y.Cmp(p) >= 0 {
		return false
	}
	mod := func(z *big.Int) *big.Int { return z.Mod(z, p) }
	if tag == "s256" {
		l := mod(new(big.Int).Mul(y, y))
		r := mod(new(big.Int).Add(new(big.Int).Mul(new(big.Int).Mul(x, x), x), bi(7)))
		return l.Cmp(r) == 0
	}
	d, _ := new(big.Int).SetString("37095705934669439343138083508754565189542113879843219016388785533085940283555", 10)
	x2, y2 := mod(new(big.Int).Mul(x, x)), mod(new(big.Int).Mul(y, y))
	l := mod(new(big.Int).Sub(y2, x2))
	r := mod(new(big.Int).Add(bi(1), new(big.Int).Mul(d, new(big.Int).Mul(x2, y2))))
	return l.Cmp(r) == 0
}

// a random point of the full edwards25519 group (not only the prime-order subgroup)
func edRandomFullPoint(rng *rand.Rand) (x, y *big.Int) {
	c := tss.Edwards()
	p := c.Params().P
	d, _ := new(big.Int).SetString("37095705934669439343138083508754565189542113879843219016388785533085940283555", 10)
	for {
		y = new(big.Int).Mod(randInt(rng, 256), p)
		y2 := new(big.Int).Mod(new(big.Int).Mul(y, y), p)
		num := new(big.Int).Mod(new(big.Int).Sub(y2, bi(1)), p)
		den := new(big.Int).Mod(new(big.Int).Add(new(big.Int).Mul(d, y2), bi(1)), p)
		deni := new(big.Int).ModInverse(den, p)
		if deni == nil {
			continue
		}
		x2 := new(big.Int).Mod(new(big.Int).Mul(num, deni), p)
		x = new(big.Int).ModSqrt(x2, p)
		if x == nil {
			continue
		}
		if rng.Intn(2) == 0 {
			x.Sub(p, x).Mod(x, p)
		}
		return
	}
}

// the 8 torsion points of edwards25519, derived from a random full-group point: T = l·Q has order | 8
func edTorsion(rng *rand.Rand) [][2]*big.Int {
	c := tss.Edwards()
	l := c.Params().N
	for {
		x, y := edRandomFullPoint(rng)
		tx, ty := c.ScalarMult(x, y, l.Bytes())
		// order exactly 8 iff 4·T ≠ identity
		fx, fy := c.ScalarMult(tx, ty, []byte{4})
		if fx.Sign() == 0 && fy.Cmp(bi(1)) == 0 {
			continue
		}
		out := make([][2]*big.Int, 8)
		for k := 0; k < 8; k++ {
			kx, ky := c.ScalarMult(tx, ty, []byte{byte(k)})
			out[k] = [2]*big.Int{kx, ky}
		}
		return out
	}
}

func runC17(r *Run, rng *rand.Rand, thorough bool) {
	r.Rule = "exact ops: crypto.ECPoint constructor/Add/ScalarMult/ScalarBaseMult/EightInvEight on btcec secp256k1 and dcrd edwards25519 vs the Lean model's own affine arithmetic; non-trivial = distinct op line on a non-identity input; direct assertions: every door (constructor, unflatten, JSON with and without a curve name, Gob, and the points inside every commitment opening of all six protocols: one party commits to its values with one pair moved off the curve and opens correctly, every honest recipient must refuse and name the sender) accepts only canonical on-curve coordinates (also for the small-order points and their aliases with a coordinate written as P or P+1) and round-trips, group laws on sampled triples, cofactor clearing on all 8 torsion points, scalar multiplication of torsion and mixed-order edwards points by scalars around and beyond the subgroup order"
	pointsInMessageFields(r, rng, thorough)
	reps := 4
	if thorough {
		reps = 25
	}
	for _, tag := range curveTags {
		c := curveByTag(tag)
		q, p := c.Params().N, c.Params().P
		// scalars and base multiples
		var pts []*crypto.ECPoint
		for rep := 0; rep < reps; rep++ {
			for _, k := range scalarGrid(rng, q) {
				g, _, _ := r.Do("crypto.ScalarBaseMult/"+tag, k.Sign() != 0, "ec_base", tag, eInt(k))
				if strings.HasPrefix(g, "ok ") {
					pt := dPoint(c, strings.TrimPrefix(g, "ok "))
					pts = append(pts, pt)
					r.Assert(refOnCurve(tag, pt.X(), pt.Y()), "crypto.ScalarBaseMult/off-curve-result", "result-on-curve", func() string { return g })
				}
			}
			if rep >= 1 && !thorough {
				break
			}
		}
		G := crypto.ScalarBaseMult(c, bi(1))
		// additions incl. doubling and inverse pairs
		nAdd := 12 * reps
		for i := 0; i < nAdd; i++ {
			a, b := pts[rng.Intn(len(pts))], pts[rng.Intn(len(pts))]
			switch i % 6 {
			case 0:
				b = a
			case 1:
				b = crypto.NewECPointNoCurveCheck(c, a.X(), new(big.Int).Mod(new(big.Int).Neg(a.Y()), p))
				if tag == "ed" {
					b = crypto.NewECPointNoCurveCheck(c, new(big.Int).Mod(new(big.Int).Neg(a.X()), p), a.Y())
				}
			}
			r.Do("ECPoint.Add/"+tag, true, "ec_add", tag, ePoint(a), ePoint(b))
		}
		// scalar multiplication of arbitrary points
		for i := 0; i < 6*reps; i++ {
			a := pts[rng.Intn(len(pts))]
			k := pick(rng, scalarGrid(rng, q))
			cls := "ECPoint.ScalarMult/" + tag
			if tag == "s256" && new(big.Int).Mod(k, q).Sign() == 0 {
				cls += "/scalar-zero-mod-q" // identity is not representable: documented panic of the API on a *local* value
			}
			r.Do(cls, true, "ec_smul", tag, ePoint(a), eInt(k))
		}
		// group laws (direct assertions on the implementation)
		for i := 0; i < 3*reps; i++ {
			k1, k2 := new(big.Int).Add(randInt(rng, 250), bi(1)), new(big.Int).Add(randInt(rng, 250), bi(1))
			a, b := crypto.ScalarBaseMult(c, k1), crypto.ScalarBaseMult(c, k2)
			ab, e1 := a.Add(b)
			ba, e2 := b.Add(a)
			r.Assert(e1 == nil && e2 == nil && ab.Equals(ba), "ECPoint.Add/commutative", "add-commutative", func() string { return ePoint(a) + " " + ePoint(b) })
			sum := crypto.ScalarBaseMult(c, new(big.Int).Add(k1, k2))
			r.Assert(e1 == nil && ab.Equals(sum), "ECPoint.Add/homomorphic", "k1G+k2G=(k1+k2)G", func() string { return eInt(k1) + " " + eInt(k2) })
			k3 := new(big.Int).Add(randInt(rng, 250), bi(1))
			cc := crypto.ScalarBaseMult(c, k3)
			l1, _ := ab.Add(cc)
			bc, _ := b.Add(cc)
			l2, _ := a.Add(bc)
			r.Assert(l1 != nil && l2 != nil && l1.Equals(l2), "ECPoint.Add/associative", "add-associative", nil)
			r.Assert(a.ScalarMult(k2).Equals(crypto.ScalarBaseMult(c, new(big.Int).Mul(k1, k2))), "ECPoint.ScalarMult/compat", "k2(k1G)=(k1k2)G", nil)
			r.Assert(G.ScalarMult(k1).Equals(a), "ECPoint.ScalarMult/base", "ScalarMult(G,k)=ScalarBaseMult(k)", nil)
			// Equals is equality of both coordinates (and of the curve): the inverse, which shares one coordinate, differs
			{
				fp := c.Params().P
				nx, ny := a.X(), new(big.Int).Mod(new(big.Int).Neg(a.Y()), fp)
				if tag == "ed" {
					nx, ny = new(big.Int).Mod(new(big.Int).Neg(a.X()), fp), a.Y()
				}
				neg := crypto.NewECPointNoCurveCheck(c, nx, ny)
				same := crypto.NewECPointNoCurveCheck(c, a.X(), a.Y())
				r.Assert(a.Equals(same) && same.Equals(a), "ECPoint.Equals/same", "equals-reflexive-on-copies", nil)
				r.Assert(!a.Equals(neg) && !neg.Equals(a), "ECPoint.Equals/inverse", "point-differs-from-its-inverse", func() string { return ePoint(a) + " vs " + ePoint(neg) })
				r.Assert(!a.Equals(b) || k1.Cmp(k2) == 0, "ECPoint.Equals/other", "different-points-differ", nil)
				r.Assert(!a.Equals(nil), "ECPoint.Equals/nil", "nil-is-not-equal", nil)
				// P + (−P): the identity, which secp256k1 points cannot represent (an error) and edwards can ((0,1))
				sum, errN := a.Add(neg)
				if tag == "ed" {
					r.Assert(errN == nil && sum != nil && sum.X().Sign() == 0 && sum.Y().Cmp(bi(1)) == 0, "ECPoint.Add/inverse", "P+(-P)=identity", func() string { return ePoint(a) })
				} else {
					r.Assert(errN != nil, "ECPoint.Add/inverse", "P+(-P)-is-refused-on-secp256k1", func() string { return ePoint(a) + " -> " + ePoint(sum) })
				}
				dbl, errD := a.Add(same)
				r.Assert(errD == nil && dbl.Equals(a.ScalarMult(bi(2))), "ECPoint.Add/double", "P+P=2P", nil)
			}
		}
		// doors: constructor with off-curve / non-canonical coordinates
		other := "ed"
		if tag == "ed" {
			other = "s256"
		}
		oc := curveByTag(other)
		for i := 0; i < 4*reps; i++ {
			a := pts[rng.Intn(len(pts))]
			x, y := a.X(), a.Y()
			op := crypto.ScalarBaseMult(oc, new(big.Int).Add(randInt(rng, 200), bi(1)))
			cands := [][3]interface{}{
				{"on-curve", x, y},
				{"x+1", new(big.Int).Add(x, bi(1)), y},
				{"y+1", x, new(big.Int).Add(y, bi(1))},
				{"swapped", y, x},
				{"x+p", new(big.Int).Add(x, p), y},
				{"y+p", x, new(big.Int).Add(y, p)},
				{"x<<8", new(big.Int).Lsh(x, 8), y},
				{"both<<8", new(big.Int).Lsh(x, 8), new(big.Int).Lsh(y, 8)},
				{"x+2^255", new(big.Int).Add(x, new(big.Int).Lsh(bi(1), 255)), y},
				{"x+2^256", new(big.Int).Add(x, new(big.Int).Lsh(bi(1), 256)), y},
				{"neg-x", new(big.Int).Neg(x), y},
				{"neg-y", x, new(big.Int).Neg(y)},
				{"zero-zero", bi(0), bi(0)},
				{"zero-one", bi(0), bi(1)},
				{"other-curve", op.X(), op.Y()},
				{"random", randInt(rng, 256), randInt(rng, 256)},
				{"p-p", new(big.Int).Set(p), new(big.Int).Set(p)},
			}
			for _, cd := range cands {
				name, X, Y := cd[0].(string), cd[1].(*big.Int), cd[2].(*big.Int)
				want := refOnCurve(tag, X, Y)
				key := "crypto.NewECPoint/" + name
				g, _, _ := r.Do(key, true, "ec_new", tag, eInt(X), eInt(Y))
				r.Assert((g == "ok") == want, key, "constructor-accepts-iff-on-curve", func() string {
					return fmt.Sprintf("%s %s (%s,%s): accepted=%v on-curve=%v", tag, name, eInt(X), eInt(Y), g == "ok", want)
				})
				// the other doors must agree with the constructor's *specified* behaviour
				doors(r, tag, c, name, X, Y, want)
			}
		}
	}
	// edwards: cofactor clearing over the 8 torsion points
	ed := tss.Edwards()
	// the doors on the small-order points and their non-canonical aliases: coordinates 0 and 1 written as P and P+1
	// (the only points with a zero coordinate are among these)
	{
		edP := ed.Params().P
		for k, t := range edTorsion(rng) {
			x, y := t[0], t[1]
			cands := [][3]interface{}{
				{"torsion", x, y},
				{"torsion-x+p", new(big.Int).Add(x, edP), y},
				{"torsion-y+p", x, new(big.Int).Add(y, edP)},
				{"torsion-both+p", new(big.Int).Add(x, edP), new(big.Int).Add(y, edP)},
			}
			for _, cd := range cands {
				name, X, Y := fmt.Sprintf("%s#%d", cd[0].(string), k), cd[1].(*big.Int), cd[2].(*big.Int)
				want := refOnCurve("ed", X, Y)
				key := "crypto.NewECPoint/" + cd[0].(string)
				g, _, _ := r.Do(key, true, "ec_new", "ed", eInt(X), eInt(Y))
				r.Assert((g == "ok") == want, key, "constructor-accepts-iff-on-curve", func() string {
					return fmt.Sprintf("ed %s (%s,%s): accepted=%v on-curve=%v", name, eInt(X), eInt(Y), g == "ok", want)
				})
				doors(r, "ed", ed, cd[0].(string), X, Y, want)
			}
		}
	}
	for rep := 0; rep < reps; rep++ {
		tors := edTorsion(rng)
		Pm := crypto.ScalarBaseMult(ed, new(big.Int).Add(randInt(rng, 250), bi(1)))
		for k, t := range tors {
			tp := crypto.NewECPointNoCurveCheck(ed, t[0], t[1])
			g, _, _ := r.Do("ECPoint.EightInvEight/torsion", true, "ec_8inv8", ePoint(tp))
			r.Assert(g == "ok -:01", "ECPoint.EightInvEight/torsion", "torsion-point-maps-to-identity", func() string { return fmt.Sprintf("k=%d %s -> %s", k, ePoint(tp), g) })
			mixed, err := Pm.Add(tp)
			if err != nil {
				r.Assert(false, "ECPoint.Add/torsion", "add-torsion-ok", nil)
				continue
			}
			// scalars at and beyond the subgroup order act on the small-order component too: k·(P+T) = (k mod q)·P + (k mod 8)·T
			edq := ed.Params().N
			for si, sc := range scalarGrid(rng, edq) {
				if !thorough && (si+k+rep)%4 != 0 {
					continue
				}
				r.Do("ECPoint.ScalarMult/ed-mixed-order", true, "ec_smul", "ed", ePoint(mixed), eInt(sc))
				if k > 0 {
					r.Do("ECPoint.ScalarMult/ed-torsion", true, "ec_smul", "ed", ePoint(tp), eInt(sc))
				}
			}
			if k > 0 {
				qT := tp.ScalarMult(new(big.Int).Mod(edq, bi(8)))
				r.Assert(mixed.ScalarMult(edq).Equals(qT), "ECPoint.ScalarMult/ed-order-times-mixed", "q·(P+T)=(q mod 8)·T", func() string {
					return ePoint(mixed) + " * q -> " + ePoint(mixed.ScalarMult(edq)) + " want " + ePoint(qT)
				})
			}
			g2, _, _ := r.Do("ECPoint.EightInvEight/mixed", true, "ec_8inv8", ePoint(mixed))
			r.Assert(g2 == "ok "+ePoint(Pm), "ECPoint.EightInvEight/mixed", "cofactor-clearing-removes-small-order-component", func() string { return ePoint(mixed) + " -> " + g2 + " want " + ePoint(Pm) })
		}
		g3, _, _ := r.Do("ECPoint.EightInvEight/prime-order", true, "ec_8inv8", ePoint(Pm))
		r.Assert(g3 == "ok "+ePoint(Pm), "ECPoint.EightInvEight/prime-order", "cofactor-clearing-fixes-prime-order-points", nil)
	}
}

// doors checks UnFlattenECPoints, JSON and Gob decoding on one coordinate pair
func doors(r *Run, tag string, c elliptic.Curve, name string, X, Y *big.Int, want bool) {
	// flatten / unflatten
	pts, err := crypto.UnFlattenECPoints(c, []*big.Int{X, Y})
	r.Assert((err == nil) == want, "crypto.UnFlattenECPoints/"+name, "unflatten-accepts-iff-on-curve", func() string { return tag + " " + name })
	if err == nil {
		flat, e2 := crypto.FlattenECPoints(pts)
		r.Assert(e2 == nil && len(flat) == 2 && flat[0].Cmp(X) == 0 && flat[1].Cmp(Y) == 0, "crypto.FlattenECPoints/roundtrip", "flatten-unflatten-roundtrip", nil)
	}
	// JSON: encode (of an unchecked point) then decode
	curveName := "secp256k1"
	if tag == "ed" {
		curveName = "ed25519"
	}
	raw := fmt.Sprintf(`{"Curve":"%s","Coords":[%s,%s]}`, curveName, X.String(), Y.String())
	var pj crypto.ECPoint
	errj := json.Unmarshal([]byte(raw), &pj)
	r.Assert((errj == nil) == want, "ECPoint.UnmarshalJSON/"+name, "json-accepts-iff-on-curve", func() string { return raw })
	if errj == nil {
		back, e2 := json.Marshal(&pj)
		var pj2 crypto.ECPoint
		e3 := json.Unmarshal(back, &pj2)
		ok := e2 == nil && e3 == nil && pj2.X().Cmp(X) == 0 && pj2.Y().Cmp(Y) == 0 && tss.SameCurve(pj2.Curve(), c)
		r.Assert(ok, "ECPoint.MarshalJSON/roundtrip", "json-roundtrip-same-point-and-curve", func() string { return string(back) })
	}
	// JSON without a curve name (the older format: absent or empty "Curve"): decoded on the process-wide default curve,
	// which is set to this curve for the duration; the same acceptance rule applies. Also with null / absent coordinates
	// (never a point).
	{
		old := tss.EC()
		tss.SetCurve(c)
		for _, raw := range []string{fmt.Sprintf(`{"Coords":[%s,%s]}`, X.String(), Y.String()), fmt.Sprintf(`{"Curve":"","Coords":[%s,%s]}`, X.String(), Y.String())} {
			var pl crypto.ECPoint
			var errl error
			var pan interface{}
			func() {
				defer func() { pan = recover() }()
				errl = json.Unmarshal([]byte(raw), &pl)
			}()
			r.Assert(pan == nil && (errl == nil) == want, "ECPoint.UnmarshalJSON/no-curve-name/"+name, "json-accepts-iff-on-curve", func() string { return fmt.Sprint(tag, " ", raw, " err=", errl, " panic=", pan) })
			if pan == nil && errl == nil {
				r.Assert(pl.X().Cmp(X) == 0 && pl.Y().Cmp(Y) == 0 && tss.SameCurve(pl.Curve(), c), "ECPoint.UnmarshalJSON/no-curve-name/roundtrip", "json-roundtrip-same-point-and-curve", func() string { return raw })
			}
		}
		if want {
			for _, raw := range []string{`{"Coords":[null,null]}`, `{"Curve":""}`, fmt.Sprintf(`{"Coords":[%s,null]}`, X.String())} {
				var pl crypto.ECPoint
				var errl error
				var pan interface{}
				func() {
					defer func() { pan = recover() }()
					errl = json.Unmarshal([]byte(raw), &pl)
				}()
				r.Assert(pan == nil && errl != nil, "ECPoint.UnmarshalJSON/no-curve-name/missing-coordinates", "json-accepts-iff-on-curve", func() string { return fmt.Sprint(raw, " err=", errl, " panic=", pan) })
			}
		}
		tss.SetCurve(old)
	}
	// Gob: the decoder takes the curve from the process-wide default; set it for the duration
	if X.Sign() >= 0 && Y.Sign() >= 0 {
		old := tss.EC()
		tss.SetCurve(c)
		src := crypto.NewECPointNoCurveCheck(c, X, Y)
		var buf bytes.Buffer
		eg := gob.NewEncoder(&buf).Encode(src)
		var pg crypto.ECPoint
		var ed error
		if eg == nil {
			ed = gob.NewDecoder(&buf).Decode(&pg)
		}
		tss.SetCurve(old)
		r.Assert(eg == nil && (ed == nil) == want, "ECPoint.GobDecode/"+name, "gob-accepts-iff-on-curve", func() string { return tag + " " + name })
		if eg == nil && ed == nil {
			r.Assert(pg.X().Cmp(X) == 0 && pg.Y().Cmp(Y) == 0, "ECPoint.GobDecode/roundtrip", "gob-roundtrip", nil)
		}
	}
}
