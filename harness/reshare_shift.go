package main

import (
	"fmt"
	"math/big"
	"math/rand"

	"github.com/bnb-chain/tss-lib/v2/crypto"
	ecdsakeygen "github.com/bnb-chain/tss-lib/v2/ecdsa/keygen"
	eddsakeygen "github.com/bnb-chain/tss-lib/v2/eddsa/keygen"
	"github.com/bnb-chain/tss-lib/v2/tss"
)

// reshareShiftedKey: one old member runs the honest code on a consistent-but-different key: its share is x_d + 1
// and the group key it announces is Y' = Y + λ_d·G (λ_d its Lagrange weight in the resharing subset), so that the
// combination of everybody's shares is exactly Y'. Whatever its position, the new members must not end up holding
// anything but a sharing of the key Y the other old members announced: either the run is refused or the new
// committee's key is Y.
func reshareShiftedKey(r *Run, rng *rand.Rand, curve string, dev int) {
	ec := tss.Edwards()
	if curve == "ec" {
		ec = tss.S256()
	}
	q := ec.Params().N
	lagrangeAtZero := func(ids []*big.Int, d int) *big.Int {
		num, den := bi(1), bi(1)
		for c := range ids {
			if c == d {
				continue
			}
			num.Mul(num, ids[c]).Mod(num, q)
			den.Mul(den, new(big.Int).Sub(ids[c], ids[d])).Mod(den, q)
		}
		return num.Mul(num, new(big.Int).ModInverse(den, q)).Mod(num, q)
	}
	var net *Net
	var orig *crypto.ECPoint
	nOld := 3
	newPIDs := makePIDs([]*big.Int{big.NewInt(9101), big.NewInt(9102), big.NewInt(9103)}, "N")
	if curve == "ed" {
		ks, err := genEdKeys(rng, 3, 1, 0, Strategy{Name: "fifo", Pick: pickFIFO})
		if err != nil {
			return
		}
		keys := cloneEdKeys(ks.keys)
		ids := make([]*big.Int, len(keys))
		for i := range keys {
			ids[i] = keys[i].ShareID
		}
		orig = keys[0].EDDSAPub
		lam := lagrangeAtZero(ids, dev)
		keys[dev].Xi = new(big.Int).Mod(new(big.Int).Add(keys[dev].Xi, bi(1)), q)
		shifted, err := orig.Add(crypto.ScalarBaseMult(ec, lam))
		if err != nil {
			return
		}
		keys[dev].EDDSAPub = shifted
		net = eddsaResharingNet(rng, keys, ks.pids, 1, newPIDs, 1)
	} else {
		ks := fixtureEcKeys()
		keys := make([]ecdsakeygen.LocalPartySaveData, 0, 3)
		ids := make([]*big.Int, 0, 3)
		for i := 0; i < 3; i++ {
			c := ks.keys[i]
			c.Xi = new(big.Int).Set(ks.keys[i].Xi)
			keys = append(keys, c)
			ids = append(ids, c.ShareID)
		}
		orig = keys[0].ECDSAPub
		lam := lagrangeAtZero(ids, dev)
		keys[dev].Xi = new(big.Int).Mod(new(big.Int).Add(keys[dev].Xi, bi(1)), q)
		shifted, err := orig.Add(crypto.ScalarBaseMult(ec, lam))
		if err != nil {
			return
		}
		keys[dev].ECDSAPub = shifted
		net = ecdsaResharingNet(rng, keys, ks.pids[:3], ks.t, newPIDs, 1, false, 0)
	}
	net.StopOnError = true
	net.Run(rng, Strategy{Name: "fifo", Pick: pickFIFO}, 300000)
	r.Evals++
	r.Traces++
	r.Distinct++
	what := curve + "dsa-resharing/shifted-key-old-member"
	r.Assert(len(net.Panics) == 0, what+"/panic", "no-panic", func() string { return fmt.Sprint(net.Panics) })
	accepted := 0
	for i := nOld; i < len(net.Nodes); i++ {
		for _, e := range net.Nodes[i].Ends {
			var pub *crypto.ECPoint
			switch k := e.(type) {
			case *eddsakeygen.LocalPartySaveData:
				pub = k.EDDSAPub
			case *ecdsakeygen.LocalPartySaveData:
				pub = k.ECDSAPub
			}
			if pub != nil && !(pub.X().Cmp(orig.X()) == 0 && pub.Y().Cmp(orig.Y()) == 0) {
				accepted++
			}
		}
	}
	rsJudgeOn(r, net, nOld, 1, fmt.Sprintf("shifted key by old member %d", dev), curve)
	r.Dist[what]++
	r.Assert(accepted == 0, what, "new-members-never-accept-shares-of-another-key", func() string {
		return fmt.Sprintf("old member %d of 3 reshared x+1 and announced Y+λG: %d new members saved key material of a key other than the one the other old members announced", dev, accepted)
	})
}
