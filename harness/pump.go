package main

import (
	"fmt"
	"io"
	"math/big"
	"math/rand"
	"sort"
	"strings"
	"sync"
	"time"

	"github.com/bnb-chain/tss-lib/v2/tss"
)

// lockedRand makes a seeded math/rand source usable from the goroutines a round starts
type lockedRand struct {
	mu     sync.Mutex
	r      *rand.Rand
	n      int64
	prefix []byte // scripted bytes served first (the first values the party samples)
}

func (l *lockedRand) Read(p []byte) (int, error) {
	l.mu.Lock()
	defer l.mu.Unlock()
	l.n += int64(len(p))
	k := copy(p, l.prefix)
	l.prefix = l.prefix[k:]
	if k < len(p) {
		l.r.Read(p[k:])
	}
	return len(p), nil
}

func newLockedRand(seed int64) *lockedRand { return &lockedRand{r: rand.New(rand.NewSource(seed))} }

var _ io.Reader = (*lockedRand)(nil)

// Node is one party instance attached to the synchronous network
type Node struct {
	Name     string
	ID       *tss.PartyID
	Party    tss.Party
	Role     string // "" | "old" | "new"
	Out      chan tss.Message
	drainEnd func() []interface{} // results emitted on the end channel since the last call
	Started  bool
	Ends     []interface{}
	Err      *tss.Error
	Emitted  []tss.Message
	Rand     *lockedRand
	Dead     bool          // a call into the party panicked: it may still hold its lock, so it is never called again
	Secrets  []namedSecret // long-term secrets this party holds when the run starts (filled by the net builders)
}

type namedSecret struct {
	name string
	v    *big.Int
}

type Delivery struct {
	Seq   int
	From  int
	To    int
	Msg   tss.Message
	Wire  []byte
	Bcast bool
	Dup   bool
}

type Event struct {
	Kind    string   `json:"kind"` // start | deliver
	Node    string   `json:"node"`
	From    string   `json:"from,omitempty"`
	Type    string   `json:"type,omitempty"`
	Bcast   bool     `json:"bcast,omitempty"`
	Round   string   `json:"round"`
	Waiting []int    `json:"waiting"`
	Emit    []string `json:"emit,omitempty"`
	Ends    int      `json:"ends"`
	Err     string   `json:"err,omitempty"`
	OK      bool     `json:"ok"`
}

type Net struct {
	Nodes   []*Node
	Pending []*Delivery
	seq     int
	Events  []Event
	// Route returns the node indices a message emitted by node `from` must be delivered to
	Route func(n *Net, from int, msg tss.Message) []int
	// Tamper may replace a message emitted by node `from` (nil = drop); called once per emitted message
	Tamper func(from int, msg tss.Message) []tss.Message
	// OnEvent is called after every start/delivery (engine correspondence, invariants)
	OnEvent func(n *Net, ev *Event, d *Delivery)
	// UseParsed delivers the ParsedMessage object instead of re-parsing wire bytes
	Panics []string
	HeldXi []*big.Int // resharing nets built for fault injection: the old members' share objects (erased = set to zero)
	// Delivered logs every delivery made (for transcript re-judgement)
	Delivered []*Delivery
	// StopOnError: a party that has reported an error receives nothing more (the caller's contract:
	// the library does not latch a failed session)
	StopOnError bool
}

func shortType(t string) string {
	if i := strings.LastIndex(t, "."); i >= 0 {
		return t[i+1:]
	}
	return t
}

func emitDesc(m tss.Message) string {
	to := "all"
	if m.GetTo() != nil {
		idx := make([]string, len(m.GetTo()))
		for i, p := range m.GetTo() {
			idx[i] = fmt.Sprint(p.Index)
		}
		to = strings.Join(idx, "+")
	}
	fl := ""
	if m.IsBroadcast() {
		fl += "b"
	} else {
		fl += "p"
	}
	if m.IsToOldCommittee() {
		fl += "O"
	}
	if m.IsToOldAndNewCommittees() {
		fl += "ON"
	}
	return shortType(m.Type()) + ":" + fl + ">" + to
}

func (n *Net) collect(i int) []string {
	nd := n.Nodes[i]
	var desc []string
	for {
		select {
		case m := <-nd.Out:
			nd.Emitted = append(nd.Emitted, m)
			desc = append(desc, emitDesc(m))
			msgs := []tss.Message{m}
			if n.Tamper != nil {
				msgs = n.Tamper(i, m)
			}
			for _, mm := range msgs {
				wire, _, err := mm.WireBytes()
				if err != nil {
					n.Panics = append(n.Panics, "WireBytes: "+err.Error())
					continue
				}
				for _, to := range n.Route(n, i, mm) {
					n.seq++
					n.Pending = append(n.Pending, &Delivery{Seq: n.seq, From: i, To: to, Msg: mm, Wire: wire, Bcast: mm.IsBroadcast()})
				}
			}
		default:
			nd.Ends = append(nd.Ends, nd.drainEnd()...)
			return desc
		}
	}
}

// hungParties: parties whose WaitingFor did not return (their lock was left held by a crashed call)
var hungParties sync.Map

func waitingIdx(p tss.Party) []int {
	if _, dead := hungParties.Load(p); dead {
		return []int{}
	}
	ch := make(chan []*tss.PartyID, 1)
	go func() { ch <- p.WaitingFor() }()
	var w []*tss.PartyID
	select {
	case w = <-ch:
	case <-time.After(20 * time.Second):
		hungParties.Store(p, true)
		return []int{}
	}
	out := make([]int, 0, len(w))
	for _, x := range w {
		out = append(out, x.Index)
	}
	sort.Ints(out)
	return out
}

func roundOf(p tss.Party) string {
	s := p.String()
	if i := strings.LastIndex(s, ", "); i >= 0 {
		s = s[i+2:]
	}
	return s
}

func (n *Net) Start(i int) {
	nd := n.Nodes[i]
	if nd.Started {
		return
	}
	nd.Started = true
	ev := Event{Kind: "start", Node: nd.Name, OK: true}
	func() {
		defer func() {
			if e := recover(); e != nil {
				n.Panics = append(n.Panics, fmt.Sprintf("Start %s: %v", nd.Name, e))
				ev.Err = "panic"
				nd.Dead = true
				hungParties.Store(nd.Party, true)
			}
		}()
		if err := nd.Party.Start(); err != nil {
			nd.Err = err
			ev.Err = errDesc(err)
			ev.OK = false
		}
	}()
	ev.Emit = n.collect(i)
	ev.Round, ev.Waiting, ev.Ends = roundOf(nd.Party), waitingIdx(nd.Party), len(nd.Ends)
	n.Events = append(n.Events, ev)
	if n.OnEvent != nil {
		n.OnEvent(n, &n.Events[len(n.Events)-1], nil)
	}
}

func errDesc(e *tss.Error) string {
	c := make([]string, 0)
	for _, p := range e.Culprits() {
		if p == nil {
			c = append(c, "nil")
		} else {
			c = append(c, fmt.Sprint(p.Index))
		}
	}
	sort.Strings(c)
	return fmt.Sprintf("round=%d culprits=[%s] %s", e.Round(), strings.Join(c, ","), strings.SplitN(e.Error(), "\n", 2)[0])
}

// Deliver hands pending delivery k to its recipient through UpdateFromBytes
func (n *Net) Deliver(k int, keep bool) {
	d := n.Pending[k]
	if !keep {
		n.Pending = append(n.Pending[:k], n.Pending[k+1:]...)
	}
	if n.StopOnError && n.Nodes[d.To].Err != nil || n.Nodes[d.To].Dead {
		return
	}
	n.Delivered = append(n.Delivered, d)
	nd := n.Nodes[d.To]
	ev := Event{Kind: "deliver", Node: nd.Name, From: n.Nodes[d.From].Name, Type: shortType(d.Msg.Type()), Bcast: d.Bcast}
	func() {
		defer func() {
			if e := recover(); e != nil {
				n.Panics = append(n.Panics, fmt.Sprintf("Update %s <- %s %s: %v", nd.Name, ev.From, ev.Type, e))
				ev.Err = "panic"
				nd.Dead = true
				hungParties.Store(nd.Party, true)
			}
		}()
		ok, err := nd.Party.UpdateFromBytes(d.Wire, d.Msg.GetFrom(), d.Bcast)
		ev.OK = ok
		if err != nil {
			if nd.Err == nil {
				nd.Err = err
			}
			ev.Err = errDesc(err)
		}
	}()
	ev.Emit = n.collect(d.To)
	ev.Round, ev.Waiting, ev.Ends = roundOf(nd.Party), waitingIdx(nd.Party), len(nd.Ends)
	n.Events = append(n.Events, ev)
	if n.OnEvent != nil {
		n.OnEvent(n, &n.Events[len(n.Events)-1], d)
	}
}

// Strategy decides the next step: start node (returns -1-i... encoded) or deliver pending[k]
type Strategy struct {
	Name      string
	Pick      func(n *Net, rng *rand.Rand, deliverable []int) int // index into n.Pending among deliverable
	PreStart  bool                                                // deliveries may precede the recipient's Start
	LateStart []int                                               // nodes started only when nothing else can happen
	Duplicate bool                                                // every delivery is made twice
	StartLast bool
}

// Run drives the network to quiescence. Returns false if it hit the step limit.
func (n *Net) Run(rng *rand.Rand, st Strategy, maxSteps int) bool {
	late := map[int]bool{}
	for _, i := range st.LateStart {
		late[i] = true
	}
	for i := range n.Nodes {
		if !late[i] {
			n.Start(i)
		}
	}
	for step := 0; step < maxSteps; step++ {
		var deliverable []int
		for k, d := range n.Pending {
			if n.Nodes[d.To].Started || st.PreStart {
				deliverable = append(deliverable, k)
			}
		}
		if len(deliverable) == 0 {
			started := false
			for i := range n.Nodes {
				if !n.Nodes[i].Started {
					n.Start(i)
					started = true
					break
				}
			}
			if !started {
				return true
			}
			continue
		}
		k := st.Pick(n, rng, deliverable)
		if st.Duplicate {
			n.Deliver(k, true)
		}
		n.Deliver(k, false)
	}
	return false
}

func pickFIFO(n *Net, rng *rand.Rand, d []int) int   { return d[0] }
func pickLIFO(n *Net, rng *rand.Rand, d []int) int   { return d[len(d)-1] }
func pickRandom(n *Net, rng *rand.Rand, d []int) int { return d[rng.Intn(len(d))] }

// starve node v: anything addressed to it goes last
func pickStarve(v int) func(n *Net, rng *rand.Rand, d []int) int {
	return func(n *Net, rng *rand.Rand, d []int) int {
		for _, k := range d {
			if n.Pending[k].To != v {
				return k
			}
		}
		return d[0]
	}
}

// hold: the k-th delivery (in emission order) of message type typ is made only when nothing else can be delivered;
// everything else arrives in emission order (one slow packet)
func pickHold(typ string, k int) func(n *Net, rng *rand.Rand, d []int) int {
	held := -1
	seen := map[int]bool{}
	count := 0
	return func(n *Net, rng *rand.Rand, d []int) int {
		if held < 0 {
			for _, idx := range d {
				dl := n.Pending[idx]
				if shortType(dl.Msg.Type()) == typ && !seen[dl.Seq] {
					seen[dl.Seq] = true
					if count == k {
						held = dl.Seq
					}
					count++
				}
			}
		}
		for _, idx := range d {
			if n.Pending[idx].Seq != held {
				return idx
			}
		}
		return d[0]
	}
}

// the message types delivered in a finished run, in order of first appearance
func deliveredTypes(n *Net) []string {
	var out []string
	seen := map[string]bool{}
	for _, d := range n.Delivered {
		t := shortType(d.Msg.Type())
		if !seen[t] {
			seen[t] = true
			out = append(out, t)
		}
	}
	return out
}

// holdStrategies: one strategy per message type, holding one delivery of that type (a different one per call)
func holdStrategies(types []string, rng *rand.Rand) []Strategy {
	var out []Strategy
	for _, t := range types {
		k := rng.Intn(4)
		out = append(out, Strategy{Name: fmt.Sprintf("hold-%s#%d", t, k), Pick: pickHold(t, k)})
	}
	return out
}

// future-first: the most recently emitted message types first, per recipient (messages arrive rounds early)
func pickFutureFirst(n *Net, rng *rand.Rand, d []int) int {
	best := d[0]
	for _, k := range d {
		if n.Pending[k].Seq > n.Pending[best].Seq {
			best = k
		}
	}
	return best
}

func strategies(nNodes int, rng *rand.Rand) []Strategy {
	s := []Strategy{
		{Name: "fifo", Pick: pickFIFO},
		{Name: "lifo", Pick: pickLIFO},
		{Name: "random", Pick: pickRandom},
		{Name: "future-first", Pick: pickFutureFirst},
		{Name: "duplicate-everything", Pick: pickRandom, Duplicate: true},
		{Name: "starve-" + fmt.Sprint(nNodes-1), Pick: pickStarve(nNodes - 1)},
		{Name: "starve-0", Pick: pickStarve(0)},
		{Name: "prestart-last", Pick: pickFIFO, PreStart: true, LateStart: []int{nNodes - 1}},
		{Name: "prestart-random", Pick: pickRandom, PreStart: true, LateStart: []int{rng.Intn(nNodes), rng.Intn(nNodes)}},
	}
	return s
}

func routeAllToAll(n *Net, from int, msg tss.Message) []int {
	var out []int
	if msg.GetTo() == nil {
		for i := range n.Nodes {
			if i != from {
				out = append(out, i)
			}
		}
		return out
	}
	for _, p := range msg.GetTo() {
		if p.Index != from {
			out = append(out, p.Index)
		}
	}
	return out
}

func keyOf(i int64) *big.Int { return big.NewInt(i) }
