package main

import (
	"context"
	"fmt"
	"math/big"
	"math/rand"
	"strings"
	"time"

	"github.com/bnb-chain/tss-lib/v2/crypto"
	"github.com/bnb-chain/tss-lib/v2/crypto/paillier"
	"github.com/bnb-chain/tss-lib/v2/tss"
)

func init() {
	goOps["pai_encrypt"] = func(a []string) string {
		pk := &paillier.PublicKey{N: dInt(a[0])}
		cr := &coinReader{}
		cr.push(dInt(a[2]), pk.N.BitLen())
		c, x, err := pk.EncryptAndReturnRandomness(cr, dInt(a[1]))
		if err != nil {
			return "err"
		}
		if x.Cmp(dInt(a[2])) != 0 {
			return "harness-coin-mismatch"
		}
		return "ok " + eInt(c)
	}
	goOps["pai_homomult"] = func(a []string) string {
		pk := &paillier.PublicKey{N: dInt(a[0])}
		c, err := pk.HomoMult(dInt(a[1]), dInt(a[2]))
		if err != nil {
			return "err"
		}
		return "ok " + eInt(c)
	}
	goOps["pai_homoadd"] = func(a []string) string {
		pk := &paillier.PublicKey{N: dInt(a[0])}
		c, err := pk.HomoAdd(dInt(a[1]), dInt(a[2]))
		if err != nil {
			return "err"
		}
		return "ok " + eInt(c)
	}
	goOps["pai_decrypt"] = func(a []string) string {
		sk := &paillier.PrivateKey{PublicKey: paillier.PublicKey{N: dInt(a[0])}, LambdaN: dInt(a[1]), PhiN: dInt(a[2])}
		m, err := sk.Decrypt(dInt(a[3]))
		if err != nil {
			return "err"
		}
		return "ok " + eInt(m)
	}
	goOps["pai_proof"] = func(a []string) string {
		sk := &paillier.PrivateKey{PublicKey: paillier.PublicKey{N: dInt(a[0])}, PhiN: dInt(a[1])}
		pf := sk.Proof(dInt(a[2]), dPoint(tss.S256(), a[3]))
		return "ok " + eInts(pf[:])
	}
	goOps["pai_proof_verify"] = func(a []string) string {
		var pf paillier.Proof
		in := dInts(a[0])
		if len(in) != paillier.ProofIters {
			return "bad-harness-input"
		}
		copy(pf[:], in)
		type res struct {
			ok  bool
			err error
		}
		ch := make(chan res, 1)
		go func() {
			defer func() {
				if e := recover(); e != nil {
					ch <- res{false, fmt.Errorf("panic %v", e)}
				}
			}()
			ok, err := pf.Verify(dInt(a[1]), dInt(a[2]), dPoint(tss.S256(), a[3]))
			ch <- res{ok, err}
		}()
		select {
		case r := <-ch:
			if r.err != nil {
				if strings.HasPrefix(r.err.Error(), "panic") {
					return r.err.Error()
				}
				return "reject"
			}
			return verdictStr(r.ok)
		case <-time.After(8 * time.Second):
			return "err hang"
		}
	}
	props["C14"] = runC14
}

// independent CRT decryption: m = L_p(c^{p-1} mod p²)·h_p mod p combined with the q-part
func crtDecrypt(p, q, c *big.Int) *big.Int {
	one := bi(1)
	n := new(big.Int).Mul(p, q)
	part := func(pr *big.Int) *big.Int {
		pr2 := new(big.Int).Mul(pr, pr)
		pm1 := new(big.Int).Sub(pr, one)
		l := func(u *big.Int) *big.Int { return new(big.Int).Div(new(big.Int).Sub(u, one), pr) }
		g := new(big.Int).Add(n, one)
		h := new(big.Int).ModInverse(l(new(big.Int).Exp(g, pm1, pr2)), pr)
		if h == nil {
			return nil
		}
		m := l(new(big.Int).Exp(c, pm1, pr2))
		return m.Mul(m, h).Mod(m, pr)
	}
	mp, mq := part(p), part(q)
	if mp == nil || mq == nil {
		return nil
	}
	// CRT
	qinv := new(big.Int).ModInverse(q, p)
	h := new(big.Int).Sub(mp, mq)
	h.Mul(h, qinv).Mod(h, p)
	return h.Mul(h, q).Add(h, mq).Mod(h, n)
}

func runC14(r *Run, rng *rand.Rand, thorough bool) {
	r.Rule = "exact ops: Paillier encrypt (x scripted), HomoMult, HomoAdd, Decrypt, key proof and its verifier vs the Lean model; non-trivial = distinct op line with in-domain arguments; direct assertions: dec(enc m)=m, CRT decryption agrees, homomorphic laws, units (also when the entropy source first serves 0, P, Q, 2P), freshness, domain refusals, generated key shape"
	type key struct {
		sk   *paillier.PrivateKey
		name string
	}
	var keys []key
	fx := loadFixtures()
	nf := 2
	if thorough {
		nf = len(fx)
	}
	for i := 0; i < nf; i++ {
		keys = append(keys, key{fx[(i+int(r.Seed))%len(fx)].PaillierSK, "vendored-2048"})
	}
	// freshly generated small keys (even modulus lengths), shape assertions
	// below 18 bits no two distinct safe primes with the two top bits set exist; 18..32 covers every residue of the
	// prime length modulo 8 (the generator shapes its candidates byte-wise)
	sizes := []int{18, 20, 22, 24, 26, 28, 30, 32, 48, 64}
	gens := 3
	if thorough {
		sizes = []int{18, 20, 22, 24, 26, 28, 30, 32, 34, 36, 40, 48, 52, 56, 64, 68, 96, 128}
		gens = 10
	}
	for _, bits := range sizes {
		ng := gens
		if bits <= 32 && !thorough {
			ng = 6
		}
		for g := 0; g < ng; g++ {
			ctx, cancel := context.WithTimeout(context.Background(), 30*time.Second)
			sk, pk, err := paillier.GenerateKeyPair(ctx, rand.New(rand.NewSource(rng.Int63())), bits, 4)
			cancel()
			if err != nil {
				r.Assert(false, "paillier.GenerateKeyPair/error", "keygen-succeeds", func() string { return fmt.Sprint(bits, err) })
				continue
			}
			P, Q := sk.P, sk.Q
			pm1, qm1 := new(big.Int).Sub(P, bi(1)), new(big.Int).Sub(Q, bi(1))
			phi := new(big.Int).Mul(pm1, qm1)
			gcd := new(big.Int).GCD(nil, nil, pm1, qm1)
			lam := new(big.Int).Div(phi, gcd)
			safe := func(p *big.Int) bool {
				return p.ProbablyPrime(30) && new(big.Int).Rsh(new(big.Int).Sub(p, bi(1)), 1).ProbablyPrime(30)
			}
			ok := pk.N.Cmp(new(big.Int).Mul(P, Q)) == 0 && sk.N.Cmp(pk.N) == 0 && pk.N.BitLen() == bits && P.Cmp(Q) != 0 &&
				safe(P) && safe(Q) && sk.PhiN.Cmp(phi) == 0 && sk.LambdaN.Cmp(lam) == 0 &&
				new(big.Int).Sub(P, Q).BitLen() >= bits/2-3
			r.Assert(ok, "paillier.GenerateKeyPair/shape", "generated-key-shape", func() string {
				return fmt.Sprintf("bits=%d N=%s(%d bits) P=%s Q=%s", bits, pk.N, pk.N.BitLen(), P, Q)
			})
			if g < 2 {
				keys = append(keys, key{sk, fmt.Sprintf("generated-%d", bits)})
			}
		}
	}
	S := tss.S256()
	for _, k := range keys {
		sk := k.sk
		N := sk.N
		N2 := new(big.Int).Mul(N, N)
		sN, sL, sPhi := eInt(N), eInt(sk.LambdaN), eInt(sk.PhiN)
		unit := func() *big.Int {
			for {
				x := new(big.Int).Mod(randInt(rng, N.BitLen()+8), N)
				if x.Sign() > 0 && new(big.Int).GCD(nil, nil, x, N).Cmp(bi(1)) == 0 {
					return x
				}
			}
		}
		msgs := []*big.Int{bi(0), bi(1), new(big.Int).Sub(N, bi(1)), new(big.Int).Mod(randInt(rng, N.BitLen()+8), N), new(big.Int).Mod(randInt(rng, N.BitLen()+8), N)}
		var cts []*big.Int
		for _, m := range msgs {
			x := unit()
			g, _, _ := r.Do("paillier.Encrypt/"+k.name, true, "pai_encrypt", sN, eInt(m), eInt(x))
			if !strings.HasPrefix(g, "ok ") {
				r.Assert(false, "paillier.Encrypt/in-domain", "encrypt-succeeds-in-domain", func() string { return g })
				continue
			}
			c := dInt(strings.TrimPrefix(g, "ok "))
			cts = append(cts, c)
			r.Assert(new(big.Int).GCD(nil, nil, c, N2).Cmp(bi(1)) == 0, "paillier.Encrypt/unit", "ciphertext-is-unit", nil)
			gd, _, _ := r.Do("paillier.Decrypt/"+k.name, true, "pai_decrypt", sN, sL, sPhi, eInt(c))
			r.Assert(gd == "ok "+eInt(m), "paillier.Decrypt/roundtrip", "dec(enc(m))=m", func() string { return eInt(m) + " -> " + gd })
			if crt := crtDecrypt(sk.P, sk.Q, c); crt != nil {
				r.Assert(crt.Cmp(m) == 0, "paillier.Decrypt/crt", "crt-decryption-agrees", nil)
			}
			// fresh randomness gives a fresh ciphertext
			g2, _, _ := r.Do("paillier.Encrypt/"+k.name, true, "pai_encrypt", sN, eInt(m), eInt(unit()))
			r.Assert(g2 != g, "paillier.Encrypt/fresh", "fresh-ciphertext-per-call", nil)
		}
		// the randomness of an encryption is a unit whatever the entropy source hands out first: candidates that
		// are 0 or share a factor with N are passed over
		if sk.P != nil && sk.Q != nil {
			x := unit()
			cands := []*big.Int{bi(0), new(big.Int).Set(sk.P), new(big.Int).Set(sk.Q), new(big.Int).Mod(new(big.Int).Lsh(sk.P, 1), N), x}
			cr := &coinReader{}
			for _, cnd := range cands {
				cr.push(cnd, N.BitLen())
			}
			m := msgs[3]
			var c, gx *big.Int
			res := guard(func() string {
				var err error
				c, gx, err = sk.PublicKey.EncryptAndReturnRandomness(cr, m)
				if err != nil {
					return "err " + err.Error()
				}
				return ""
			})
			r.Evals++
			okc := res == "" && gx != nil && new(big.Int).GCD(nil, nil, gx, N).Cmp(bi(1)) == 0 && gx.Cmp(x) == 0 &&
				new(big.Int).GCD(nil, nil, c, N2).Cmp(bi(1)) == 0
			r.Assert(okc, "paillier.Encrypt/non-unit-candidates", "randomness-and-ciphertext-are-units", func() string {
				return fmt.Sprintf("entropy source serves 0, P, Q, 2P, then the unit %s: %s x=%v", eInt(x), res, gx)
			})
			if okc {
				gm, _, _ := r.Do("common.GetRandomPositiveRelativelyPrimeInt/paillier", true, "sample_relprime", sN, eInts(cands))
				r.Assert(gm == "ok "+eInt(x), "paillier.Encrypt/sampler", "sampler-skips-non-units", func() string { return gm })
				gd, _, _ := r.Do("paillier.Decrypt/"+k.name, true, "pai_decrypt", sN, sL, sPhi, eInt(c))
				r.Assert(gd == "ok "+eInt(m), "paillier.Decrypt/roundtrip", "dec(enc(m))=m", func() string { return eInt(m) + " -> " + gd })
			}
		}
		// homomorphic laws
		for i := 0; i+1 < len(cts); i++ {
			ga, _, _ := r.Do("paillier.HomoAdd/"+k.name, true, "pai_homoadd", sN, eInt(cts[i]), eInt(cts[i+1]))
			if strings.HasPrefix(ga, "ok ") {
				gd, _, _ := r.Do("paillier.Decrypt/"+k.name, true, "pai_decrypt", sN, sL, sPhi, strings.TrimPrefix(ga, "ok "))
				want := new(big.Int).Mod(new(big.Int).Add(msgs[i], msgs[i+1]), N)
				r.Assert(gd == "ok "+eInt(want), "paillier.HomoAdd/law", "dec(add(c1,c2))=m1+m2", func() string { return gd })
			}
			sc := msgs[(i+2)%len(msgs)]
			gm, _, _ := r.Do("paillier.HomoMult/"+k.name, true, "pai_homomult", sN, eInt(sc), eInt(cts[i]))
			if strings.HasPrefix(gm, "ok ") {
				gd, _, _ := r.Do("paillier.Decrypt/"+k.name, true, "pai_decrypt", sN, sL, sPhi, strings.TrimPrefix(gm, "ok "))
				want := new(big.Int).Mod(new(big.Int).Mul(msgs[i], sc), N)
				r.Assert(gd == "ok "+eInt(want), "paillier.HomoMult/law", "dec(mult(k,c))=k*m", func() string { return gd })
			}
		}
		// domain guards
		out := []*big.Int{bi(-1), new(big.Int).Set(N), new(big.Int).Add(N, bi(1))}
		for _, m := range out {
			g, _, _ := r.Do("paillier.Encrypt/out-of-domain", true, "pai_encrypt", sN, eInt(m), eInt(bi(1)))
			r.Assert(g == "err", "paillier.Encrypt/out-of-domain", "out-of-domain-refused", func() string { return eInt(m) + " " + g })
			g, _, _ = r.Do("paillier.HomoMult/out-of-domain", true, "pai_homomult", sN, eInt(m), eInt(cts[0]))
			r.Assert(g == "err", "paillier.HomoMult/out-of-domain", "out-of-domain-refused", func() string { return eInt(m) + " " + g })
		}
		for _, c := range []*big.Int{bi(-1), new(big.Int).Set(N2), new(big.Int).Add(N2, bi(1))} {
			g, _, _ := r.Do("paillier.Decrypt/out-of-domain", true, "pai_decrypt", sN, sL, sPhi, eInt(c))
			r.Assert(g == "err", "paillier.Decrypt/out-of-domain", "out-of-domain-refused", func() string { return g })
			g, _, _ = r.Do("paillier.HomoAdd/out-of-domain", true, "pai_homoadd", sN, eInt(c), eInt(cts[0]))
			r.Assert(g == "err", "paillier.HomoAdd/out-of-domain", "out-of-domain-refused", func() string { return g })
			g, _, _ = r.Do("paillier.HomoAdd/out-of-domain", true, "pai_homoadd", sN, eInt(cts[0]), eInt(c))
			r.Assert(g == "err", "paillier.HomoAdd/out-of-domain", "out-of-domain-refused", func() string { return g })
			g, _, _ = r.Do("paillier.HomoMult/out-of-domain", true, "pai_homomult", sN, eInt(bi(2)), eInt(c))
			r.Assert(g == "err", "paillier.HomoMult/out-of-domain", "out-of-domain-refused", func() string { return g })
		}
		for _, c := range []*big.Int{bi(0), new(big.Int).Set(sk.P), new(big.Int).Mul(sk.Q, bi(3)), new(big.Int).Set(N)} {
			g, _, _ := r.Do("paillier.Decrypt/non-unit", true, "pai_decrypt", sN, sL, sPhi, eInt(c))
			r.Assert(g == "err", "paillier.Decrypt/non-unit", "ciphertext-sharing-factor-refused", func() string { return eInt(c) + " " + g })
		}
		// the same through the complete private key (with its primes), also for products with a genuine ciphertext
		for _, c := range []*big.Int{new(big.Int).Set(sk.P), new(big.Int).Set(sk.Q), new(big.Int).Lsh(sk.P, 1), new(big.Int).Mul(sk.P, sk.P),
			new(big.Int).Mod(new(big.Int).Mul(sk.P, cts[0]), N2), new(big.Int).Mod(new(big.Int).Mul(sk.Q, cts[0]), N2)} {
			var err error
			var pan interface{}
			func() {
				defer func() { pan = recover() }()
				_, err = sk.Decrypt(c)
			}()
			r.Evals++
			r.Assert(pan == nil && err != nil, "paillier.Decrypt/non-unit-complete-key", "ciphertext-sharing-factor-refused", func() string { return fmt.Sprint(eInt(c), " err=", err, " panic=", pan) })
		}
		// key-correctness proof (only meaningful for the protocol-sized keys, but the ops are exact for all)
		if k.name == "vendored-2048" { // GenerateXs needs a 256-bit hash block to fall below N: only protocol-sized moduli
			kk := randInt(rng, 256)
			pub := crypto.ScalarBaseMult(S, new(big.Int).Add(randInt(rng, 200), bi(1)))
			g, _, _ := r.Do("paillier.Proof/"+k.name, true, "pai_proof", sN, sPhi, eInt(kk), ePoint(pub))
			if strings.HasPrefix(g, "ok ") {
				pf := strings.TrimPrefix(g, "ok ")
				gv, _, _ := r.Do("paillier.Proof.Verify/"+k.name, true, "pai_proof_verify", pf, sN, eInt(kk), ePoint(pub))
				if k.name == "vendored-2048" {
					r.Assert(gv == "accept", "paillier.Proof.Verify/honest", "honest-key-proof-accepted", func() string { return gv })
				}
				r.Do("paillier.Proof.Verify/"+k.name, true, "pai_proof_verify", pf, sN, eInt(new(big.Int).Add(kk, bi(1))), ePoint(pub))
				pfi := dInts(pf)
				pfi[rng.Intn(len(pfi))].Add(pfi[0], bi(1))
				r.Do("paillier.Proof.Verify/"+k.name, true, "pai_proof_verify", eInts(pfi), sN, eInt(kk), ePoint(pub))
			}
		}
	}
	// trivial moduli: the verifier must return (K10)
	pub := crypto.ScalarBaseMult(S, bi(5))
	pf13 := make([]*big.Int, paillier.ProofIters)
	for i := range pf13 {
		pf13[i] = bi(int64(i + 2))
	}
	for _, n := range []*big.Int{bi(1), bi(0), bi(-1), bi(-7), bi(2), bi(3), bi(1009), bi(1009 * 1013)} {
		cls := "paillier.Proof.Verify/small-N"
		if n.Cmp(bi(1)) <= 0 {
			cls = "paillier.Proof.Verify/N<=1"
		}
		g, _, _ := r.Do(cls, true, "pai_proof_verify", eInts(pf13), eInt(n), eInt(bi(9)), ePoint(pub))
		r.Assert(!strings.HasPrefix(g, "panic") && g != "err hang", cls, "verifier-returns", func() string { return eInt(n) + " -> " + g })
	}
}
