package main

import (
	"fmt"
	"math/big"
	"math/rand"
	"strings"

	"github.com/bnb-chain/tss-lib/v2/crypto"
	"github.com/bnb-chain/tss-lib/v2/crypto/vss"
)

func eShare(s *vss.Share) string {
	return fmt.Sprintf("%d:%s:%s", s.Threshold, eInt(s.ID), eInt(s.Share))
}

func eShares(ss vss.Shares) string {
	if len(ss) == 0 {
		return "_"
	}
	out := make([]string, len(ss))
	for i, s := range ss {
		out[i] = eShare(s)
	}
	return strings.Join(out, ",")
}

func dShare(s string) *vss.Share {
	f := strings.Split(s, ":")
	return &vss.Share{Threshold: atoi(f[0]), ID: dInt(f[1]), Share: dInt(f[2])}
}

func dShares(s string) vss.Shares {
	if s == "_" {
		return vss.Shares{}
	}
	fs := strings.Split(s, ",")
	out := make(vss.Shares, len(fs))
	for i, f := range fs {
		out[i] = dShare(f)
	}
	return out
}

func init() {
	goOps["vss_create"] = func(a []string) string {
		c := curveByTag(a[0])
		cr := &coinReader{}
		for _, co := range dInts(a[4]) {
			cr.push(co, c.Params().N.BitLen())
		}
		vs, shares, err := vss.Create(c, atoi(a[1]), dInt(a[2]), dInts(a[3]), cr)
		if err != nil {
			return "err"
		}
		return "ok " + ePoints(vs) + " " + eShares(shares)
	}
	goOps["vss_verify"] = func(a []string) string {
		c := curveByTag(a[0])
		return verdictStr(dShare(a[2]).Verify(c, atoi(a[1]), vss.Vs(dPoints(c, a[3]))))
	}
	goOps["vss_reconstruct"] = func(a []string) string {
		c := curveByTag(a[0])
		s, err := dShares(a[1]).ReConstruct(c)
		if err != nil {
			return "err"
		}
		return "ok " + eInt(s)
	}
	props["C15"] = runC15
}

func subsets(n int) [][]int {
	var out [][]int
	for m := 1; m < 1<<uint(n); m++ {
		var s []int
		for i := 0; i < n; i++ {
			if m&(1<<uint(i)) != 0 {
				s = append(s, i)
			}
		}
		out = append(out, s)
	}
	return out
}

func runC15(r *Run, rng *rand.Rand, thorough bool) {
	r.Rule = "exact ops: vss.Create (coefficients scripted through the io.Reader) / Share.Verify / Shares.ReConstruct on both curves vs the Lean model; non-trivial = distinct op line with t ≥ 1; direct assertions: v0 = secret·G, own-id verification, other-id rejection, every subset ≥ t+1 reconstructs, exactly t shares do not, single alterations rejected, refusals"
	maxN := 4
	if thorough {
		maxN = 6
	}
	for _, tag := range curveTags {
		c := curveByTag(tag)
		q := c.Params().N
		idPatterns := func(n int, pat int) []*big.Int {
			ids := make([]*big.Int, n)
			for i := range ids {
				switch pat {
				case 0:
					ids[i] = bi(int64(i + 1))
				case 1:
					ids[i] = new(big.Int).Add(randInt(rng, 256), bi(1))
				case 2: // ids ≥ q
					ids[i] = new(big.Int).Add(q, bi(int64(i+1)))
				default:
					ids[i] = new(big.Int).Sub(q, bi(int64(i+1)))
				}
			}
			return ids
		}
		for n := 1; n <= maxN; n++ {
			for t := 1; t <= n; t++ {
				for pat := 0; pat < 4; pat++ {
					if !thorough && pat > 0 && (n+t+pat)%3 != 0 {
						continue
					}
					ids := idPatterns(n, pat)
					secret := []*big.Int{bi(1), new(big.Int).Sub(q, bi(1)), randInt(rng, 250), new(big.Int).Add(q, bi(5)), randInt(rng, 8)}[rng.Intn(5)]
					if secret.Sign() == 0 {
						secret = bi(9)
					}
					coeffs := make([]*big.Int, t)
					for i := range coeffs {
						coeffs[i] = new(big.Int).Mod(new(big.Int).Add(randInt(rng, 255), bi(1)), q)
						if coeffs[i].Sign() == 0 {
							coeffs[i] = bi(3)
						}
					}
					g, _, same := r.Do("vss.Create/"+tag, true, "vss_create", tag, fmt.Sprint(t), eInt(secret), eInts(ids), eInts(coeffs))
					if !same || !strings.HasPrefix(g, "ok ") {
						r.Assert(strings.HasPrefix(g, "ok "), "vss.Create/honest", "create-succeeds-on-admissible-input", func() string { return g })
						continue
					}
					f := strings.Split(g, " ")
					vs, shares := vss.Vs(dPoints(c, f[1])), dShares(f[2])
					r.Assert(vs[0].Equals(crypto.ScalarBaseMult(c, secret)), "vss.Create/v0", "first-commitment-is-secret*G", nil)
					secretModQ := new(big.Int).Mod(secret, q)
					for i, sh := range shares {
						gv, _, _ := r.Do("vss.Share.Verify/"+tag, true, "vss_verify", tag, fmt.Sprint(t), eShare(sh), ePoints(vs))
						r.Assert(gv == "accept", "vss.Share.Verify/own-id", "share-verifies-under-own-id", func() string { return eShare(sh) })
						// under another id
						o := shares[(i+1)%len(shares)]
						if o.ID.Cmp(sh.ID) != 0 {
							alt := &vss.Share{Threshold: t, ID: o.ID, Share: sh.Share}
							ga, _, _ := r.Do("vss.Share.Verify/"+tag, true, "vss_verify", tag, fmt.Sprint(t), eShare(alt), ePoints(vs))
							r.Assert(ga == "reject", "vss.Share.Verify/other-id", "share-fails-under-other-id", func() string { return eShare(alt) })
						}
						// altered share value, altered commitment, wrong threshold, wrong length
						alt := &vss.Share{Threshold: t, ID: sh.ID, Share: new(big.Int).Add(sh.Share, bi(1))}
						ga, _, _ := r.Do("vss.Share.Verify/"+tag, true, "vss_verify", tag, fmt.Sprint(t), eShare(alt), ePoints(vs))
						r.Assert(ga == "reject", "vss.Share.Verify/altered-share", "altered-share-rejected", nil)
						// the additive inverse of the share / of a commitment point: same x coordinate of the evaluated point
						if ns := new(big.Int).Mod(new(big.Int).Neg(sh.Share), q); ns.Sign() != 0 && ns.Cmp(new(big.Int).Mod(sh.Share, q)) != 0 {
							altN := &vss.Share{Threshold: t, ID: sh.ID, Share: ns}
							gn, _, _ := r.Do("vss.Share.Verify/"+tag, true, "vss_verify", tag, fmt.Sprint(t), eShare(altN), ePoints(vs))
							r.Assert(gn == "reject", "vss.Share.Verify/negated-share", "altered-share-rejected", func() string { return eShare(altN) })
						}
						{
							kn := rng.Intn(len(vs))
							fp := c.Params().P
							nx, ny := vs[kn].X(), new(big.Int).Mod(new(big.Int).Neg(vs[kn].Y()), fp)
							if tag == "ed" {
								nx, ny = new(big.Int).Mod(new(big.Int).Neg(vs[kn].X()), fp), vs[kn].Y()
							}
							if np, err := crypto.NewECPoint(c, nx, ny); err == nil && !(np.X().Cmp(vs[kn].X()) == 0 && np.Y().Cmp(vs[kn].Y()) == 0) {
								vsN := append(vss.Vs{}, vs...)
								vsN[kn] = np
								gn, _, _ := r.Do("vss.Share.Verify/"+tag, true, "vss_verify", tag, fmt.Sprint(t), eShare(sh), ePoints(vsN))
								r.Assert(gn == "reject", "vss.Share.Verify/negated-commitment", "altered-commitment-rejected", func() string { return fmt.Sprint(kn) })
							}
						}
						k := rng.Intn(len(vs))
						vs2 := append(vss.Vs{}, vs...)
						vs2[k], _ = vs[k].Add(crypto.ScalarBaseMult(c, bi(1)))
						if vs2[k] != nil {
							gc, _, _ := r.Do("vss.Share.Verify/"+tag, true, "vss_verify", tag, fmt.Sprint(t), eShare(sh), ePoints(vs2))
							r.Assert(gc == "reject", "vss.Share.Verify/altered-commitment", "altered-commitment-rejected", nil)
						}
						r.Do("vss.Share.Verify/"+tag, true, "vss_verify", tag, fmt.Sprint(t+1), eShare(sh), ePoints(vs))
						r.Do("vss.Share.Verify/"+tag, true, "vss_verify", tag, fmt.Sprint(t), eShare(sh), ePoints(vs[:len(vs)-1]))
						if i > 0 && !thorough {
							break
						}
					}
					// reconstruction over subsets
					subs := subsets(n)
					for si, sub := range subs {
						if !thorough && n > 3 && si%3 != 0 {
							continue
						}
						ss := make(vss.Shares, len(sub))
						for i, j := range sub {
							ss[i] = shares[j]
						}
						gr, _, _ := r.Do("vss.ReConstruct/"+tag, true, "vss_reconstruct", tag, eShares(ss))
						if len(sub) >= t+1 {
							r.Assert(gr == "ok "+eInt(secretModQ), "vss.ReConstruct/enough", "t+1-or-more-shares-reconstruct-the-secret", func() string { return fmt.Sprintf("t=%d subset=%v -> %s want %s", t, sub, gr, eInt(secretModQ)) })
						} else {
							r.Assert(gr != "ok "+eInt(secretModQ), "vss.ReConstruct/too-few", "fewer-than-t+1-shares-never-reconstruct", func() string { return fmt.Sprintf("t=%d subset=%v -> %s", t, sub, gr) })
						}
					}
				}
			}
		}
		// refusals
		two := []*big.Int{bi(1), bi(2)}
		type refusal struct {
			name string
			t    int
			ids  []*big.Int
		}
		for _, rf := range []refusal{
			{"id-zero", 1, []*big.Int{bi(0), bi(2)}},
			{"id-q", 1, []*big.Int{new(big.Int).Set(q), bi(2)}},
			{"id-2q", 1, []*big.Int{new(big.Int).Lsh(q, 1), bi(2)}},
			{"dup", 1, []*big.Int{bi(5), bi(5)}},
			{"dup-mod-q", 1, []*big.Int{bi(5), new(big.Int).Add(q, bi(5))}},
			{"dup-mod-q-with-id-between", 1, []*big.Int{bi(1), bi(2), new(big.Int).Add(q, bi(1))}},
			{"dup-mod-q-reordered", 1, []*big.Int{new(big.Int).Add(q, bi(1)), bi(2), bi(1)}},
			{"dup-mod-q-four", 2, []*big.Int{bi(1), bi(2), bi(3), new(big.Int).Add(q, bi(1))}},
			{"dup-mod-2q", 1, []*big.Int{bi(5), bi(6), new(big.Int).Add(new(big.Int).Lsh(q, 1), bi(5))}},
			{"dup-exact-with-id-between", 1, []*big.Int{bi(9), bi(4), bi(9)}},
			{"t-zero", 0, two},
			{"n-lt-t", 3, two},
		} {
			g, _, _ := r.Do("vss.Create/"+tag+"/"+rf.name, true, "vss_create", tag, fmt.Sprint(rf.t), "07", eInts(rf.ids), eInts([]*big.Int{bi(3), bi(4), bi(5)}[:max0(rf.t)]))
			r.Assert(g == "err", "vss.Create/refusal-"+rf.name, "dealing-refused", func() string { return g })
		}
		for k := 0; k < 12; k++ {
			n := 3 + rng.Intn(4)
			ids := partyKeys(rng, n, 1, q)
			a, b := rng.Intn(n), rng.Intn(n)
			if a == b {
				b = (a + 1) % n
			}
			ids[b] = new(big.Int).Add(new(big.Int).Mod(ids[a], q), new(big.Int).Mul(q, bi(int64(rng.Intn(3)))))
			if ids[b].Cmp(ids[a]) == 0 {
				ids[b].Add(ids[b], q)
			}
			cs := make([]*big.Int, 2)
			for i := range cs {
				cs[i] = bi(int64(3 + i))
			}
			g, _, _ := r.Do("vss.Create/"+tag+"/random-congruent-pair", true, "vss_create", tag, "2", "07", eInts(ids), eInts(cs))
			r.Assert(g == "err", "vss.Create/refusal-random-congruent-pair", "dealing-refused", func() string { return eInts(ids) + " -> " + g[:min(len(g), 40)] })
		}
		// K2 grid: zero share / zero id / id ≡ 0 (never a crash)
		vs0 := vss.Vs{crypto.ScalarBaseMult(c, bi(7)), crypto.ScalarBaseMult(c, bi(3))}
		for _, id := range []*big.Int{bi(0), new(big.Int).Set(q), new(big.Int).Lsh(q, 1), bi(1), new(big.Int).Sub(q, bi(1))} {
			for _, sv := range []*big.Int{bi(0), new(big.Int).Set(q), bi(1), bi(10), new(big.Int).Sub(q, bi(1))} {
				sh := &vss.Share{Threshold: 1, ID: id, Share: sv}
				cls := "vss.Share.Verify/" + tag + "/grid"
				if new(big.Int).Mod(id, q).Sign() == 0 || new(big.Int).Mod(sv, q).Sign() == 0 {
					cls = "vss.Share.Verify/" + tag + "/zero-share-or-id"
				}
				g, _, _ := r.Do(cls, true, "vss_verify", tag, "1", eShare(sh), ePoints(vs0))
				r.Assert(!strings.HasPrefix(g, "panic"), cls, "verify-never-panics", func() string { return eShare(sh) + " -> " + g })
			}
		}
	}
}

func max0(n int) int {
	if n < 0 {
		return 0
	}
	return n
}
