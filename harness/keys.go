package main

import (
	"fmt"
	"math/big"
	"math/rand"

	ecdsakeygen "github.com/bnb-chain/tss-lib/v2/ecdsa/keygen"
	eddsakeygen "github.com/bnb-chain/tss-lib/v2/eddsa/keygen"
	"github.com/bnb-chain/tss-lib/v2/tss"
)

type edKeySet struct {
	n, t int
	pids tss.SortedPartyIDs
	keys []eddsakeygen.LocalPartySaveData
	net  *Net
}

type ecKeySet struct {
	n, t int
	pids tss.SortedPartyIDs
	keys []ecdsakeygen.LocalPartySaveData
	net  *Net
}

// run an EdDSA key generation under a strategy and return what every party saved
func genEdKeys(rng *rand.Rand, n, t int, pattern int, st Strategy) (*edKeySet, error) {
	return genEdKeysWith(rng, n, t, partyKeys(rng, n, pattern, tss.Edwards().Params().N), st)
}

func genEdKeysWith(rng *rand.Rand, n, t int, keys []*big.Int, st Strategy) (*edKeySet, error) {
	net := eddsaKeygenNet(rng, n, t, keys)
	if !net.Run(rng, st, 100000) {
		return nil, fmt.Errorf("step limit")
	}
	ks := &edKeySet{n: n, t: t, net: net}
	for _, nd := range net.Nodes {
		ks.pids = append(ks.pids, nd.ID)
		if len(nd.Ends) != 1 {
			return ks, fmt.Errorf("node %s ended %d times (err=%v)", nd.Name, len(nd.Ends), nd.Err)
		}
		ks.keys = append(ks.keys, *nd.Ends[0].(*eddsakeygen.LocalPartySaveData))
	}
	return ks, nil
}

func genEcKeys(rng *rand.Rand, n, t int, pattern int, st Strategy) (*ecKeySet, error) {
	return genEcKeysWith(rng, n, t, partyKeys(rng, n, pattern, tss.S256().Params().N), st)
}

func genEcKeysWith(rng *rand.Rand, n, t int, keys []*big.Int, st Strategy) (*ecKeySet, error) {
	net := ecdsaKeygenNet(rng, n, t, keys, rng.Intn(5))
	if !net.Run(rng, st, 100000) {
		return nil, fmt.Errorf("step limit")
	}
	ks := &ecKeySet{n: n, t: t, net: net}
	for _, nd := range net.Nodes {
		ks.pids = append(ks.pids, nd.ID)
		if len(nd.Ends) != 1 {
			return ks, fmt.Errorf("node %s ended %d times (err=%v)", nd.Name, len(nd.Ends), nd.Err)
		}
		ks.keys = append(ks.keys, *nd.Ends[0].(*ecdsakeygen.LocalPartySaveData))
	}
	return ks, nil
}

// the vendored 5-party, t=2 ECDSA key
func fixtureEcKeys() *ecKeySet {
	fx := loadFixtures()
	ks := &ecKeySet{n: len(fx), t: len(fx) / 2}
	ids := make(tss.UnSortedPartyIDs, len(fx))
	for i, k := range fx {
		ids[i] = tss.NewPartyID(fmt.Sprint(i), fmt.Sprint(i), k.ShareID)
	}
	ks.pids = tss.SortPartyIDs(ids)
	// fixtures are stored in party order; match by ShareID
	for _, id := range ks.pids {
		for _, k := range fx {
			if k.ShareID.Cmp(new(big.Int).SetBytes(id.Key)) == 0 {
				ks.keys = append(ks.keys, k)
			}
		}
	}
	return ks
}

// Lagrange interpolation at 0 over (id_i, value_i) mod q
func lagrangeZero(q *big.Int, ids, vals []*big.Int) *big.Int {
	res := new(big.Int)
	for i := range ids {
		num, den := big.NewInt(1), big.NewInt(1)
		for j := range ids {
			if i == j {
				continue
			}
			num.Mul(num, ids[j]).Mod(num, q)
			d := new(big.Int).Sub(ids[j], ids[i])
			den.Mul(den, d).Mod(den, q)
		}
		inv := new(big.Int).ModInverse(den, q)
		if inv == nil {
			return nil
		}
		term := new(big.Int).Mul(vals[i], num)
		term.Mul(term, inv).Mod(term, q)
		res.Add(res, term).Mod(res, q)
	}
	return res
}

func combos(n, k int) [][]int {
	var out [][]int
	var rec func(start int, cur []int)
	rec = func(start int, cur []int) {
		if len(cur) == k {
			out = append(out, append([]int{}, cur...))
			return
		}
		for i := start; i < n; i++ {
			rec(i+1, append(cur, i))
		}
	}
	rec(0, nil)
	return out
}

func cloneEdKeys(in []eddsakeygen.LocalPartySaveData) []eddsakeygen.LocalPartySaveData {
	out := make([]eddsakeygen.LocalPartySaveData, len(in))
	for i := range in {
		out[i] = in[i]
		out[i].Xi = new(big.Int).Set(in[i].Xi)
	}
	return out
}
