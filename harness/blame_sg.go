package main

import (
	"fmt"
	"math/big"
	"math/rand"
	"strings"

	"github.com/bnb-chain/tss-lib/v2/common"
	"github.com/bnb-chain/tss-lib/v2/crypto"
	ecdsakeygen "github.com/bnb-chain/tss-lib/v2/ecdsa/keygen"
	ecdsasigning "github.com/bnb-chain/tss-lib/v2/ecdsa/signing"
	"github.com/bnb-chain/tss-lib/v2/tss"
)

// blameCorrespondenceSg re-judges, with the Lean model Core/BlameSg, what every honest signer of a 3-signer
// threshold-ECDSA run concludes about its peers in rounds 2, 3, 5, 7 and 9 ("continue" or the error's culprits), from
// the message fields it received, in runs where one signer alters one field of one message.
func blameCorrespondenceSg(r *Run, rng *rand.Rand, thorough bool) {
	eks := fixtureEcKeys()
	ec := tss.S256()
	q := ec.Params().N
	pids := eks.pids[:3]
	type tw struct {
		typ, field, kind string
		elem             int
	}
	tweaks := []tw{{"", "", "", 0},
		{"SignRound1Message1", "c", "+1", 0}, {"SignRound1Message1", "range_proof_alice", "+1", 4}, {"SignRound1Message1", "range_proof_alice", "drop-field", 0},
		{"SignRound2Message", "c1", "+1", 0}, {"SignRound2Message", "proof_bob", "+1", 6}, {"SignRound2Message", "c2", "random", 0}, {"SignRound2Message", "proof_bob_wc", "+1", 10},
		{"SignRound2Message", "proof_bob_wc", "+1", 8},
		{"SignRound1Message2", "commitment", "+1", 0}, {"SignRound4Message", "de_commitment", "+1", 1}, {"SignRound4Message", "proof_t", "+1", 0}, {"SignRound4Message", "proof_alpha_x", "+1", 0},
		{"SignRound4Message", "de_commitment", "negp", 2},
		{"SignRound5Message", "commitment", "random", 0}, {"SignRound6Message", "de_commitment", "+1", 3}, {"SignRound6Message", "proof_t", "+1", 0}, {"SignRound6Message", "v_proof_u", "+1", 0},
		{"SignRound6Message", "v_proof_alpha_y", "negp", 0},
		{"SignRound7Message", "commitment", "+1", 0}, {"SignRound8Message", "de_commitment", "+1", 1}, {"SignRound8Message", "de_commitment", "negp", 4}}
	if !thorough {
		s := int(r.Seed)
		tweaks = []tw{tweaks[1+s%3], tweaks[4+s%5], tweaks[9+s%5], tweaks[14+s%5], tweaks[19+s%3]}
	}
	for ti, t := range tweaks {
		msg := new(big.Int).Mod(randInt(rng, 256), q)
		net := ecdsaSigningNet(rng, eks.keys[:3], pids, eks.t, msg, -1, nil)
		dev := (ti + int(r.Seed)) % 3
		if t.typ != "" {
			trng := rand.New(rand.NewSource(rng.Int63()))
			net.Tamper = func(from int, m tss.Message) []tss.Message {
				if from != dev || shortType(m.Type()) != t.typ {
					return []tss.Message{m}
				}
				mutateOnEd = false
				tm, _ := tamperMsg(trng, m, nil, injSpec{Type: t.typ, Field: t.field, Elem: t.elem, Kind: t.kind})
				return []tss.Message{tm}
			}
		}
		net.StopOnError = true
		net.Run(rand.New(rand.NewSource(2)), Strategy{Name: "fifo", Pick: pickFIFO}, 300000)
		what := fmt.Sprintf("%s.%s[%d] %s by signer %d", t.typ, t.field, t.elem, t.kind, dev)
		if len(net.Panics) > 0 {
			r.Assert(false, "blame/ecdsa-signing/panic", "no-panic-under-injection", func() string { return what + fmt.Sprint(net.Panics) })
			continue
		}
		for i, nd := range net.Nodes {
			if i == dev || refusedBeforeStore(nd.Err) {
				continue
			}
			sgJudge(r, net, i, nd, eks.keys[i], pids, what)
		}
	}
}

func sgJudge(r *Run, net *Net, i int, nd *Node, fullKey ecdsakeygen.LocalPartySaveData, pids tss.SortedPartyIDs, what string) {
	ec := tss.S256()
	q := ec.Params().N
	key := ecdsakeygen.BuildLocalSaveDataSubset(fullKey, pids)
	n := len(pids)
	// ssid as the signers compute it in round 1
	ssidList := []*big.Int{ec.Params().P, ec.Params().N, ec.Params().B, ec.Params().Gx, ec.Params().Gy}
	ssidList = append(ssidList, pids.Keys()...)
	flat, _ := crypto.FlattenECPoints(key.BigXj)
	ssidList = append(ssidList, flat...)
	ssidList = append(ssidList, key.NTildej...)
	ssidList = append(ssidList, key.H1j...)
	ssidList = append(ssidList, key.H2j...)
	ssidList = append(ssidList, big.NewInt(1), big.NewInt(0))
	ssid := common.SHA512_256i(ssidList...).Bytes()
	_, bigWs := ecdsasigning.PrepareForSigning(ec, i, n, key.Xi, key.Ks, key.BigXj)
	type pin struct {
		m11 *ecdsasigning.SignRound1Message1
		m12 *ecdsasigning.SignRound1Message2
		m2  *ecdsasigning.SignRound2Message
		m3  *ecdsasigning.SignRound3Message
		m4  *ecdsasigning.SignRound4Message
		m5  *ecdsasigning.SignRound5Message
		m6  *ecdsasigning.SignRound6Message
		m7  *ecdsasigning.SignRound7Message
		m8  *ecdsasigning.SignRound8Message
	}
	in := make([]pin, n)
	set := func(p *pin, c interface{}) {
		switch c := c.(type) {
		case *ecdsasigning.SignRound1Message1:
			p.m11 = c
		case *ecdsasigning.SignRound1Message2:
			p.m12 = c
		case *ecdsasigning.SignRound2Message:
			p.m2 = c
		case *ecdsasigning.SignRound3Message:
			p.m3 = c
		case *ecdsasigning.SignRound4Message:
			p.m4 = c
		case *ecdsasigning.SignRound5Message:
			p.m5 = c
		case *ecdsasigning.SignRound6Message:
			p.m6 = c
		case *ecdsasigning.SignRound7Message:
			p.m7 = c
		case *ecdsasigning.SignRound8Message:
			p.m8 = c
		}
	}
	for _, d := range net.Delivered {
		if d.To == i {
			set(&in[d.From], d.Msg.(tss.ParsedMessage).Content())
		}
	}
	// what the party itself sent: the round-1 ciphertext per peer, its Γ_i opening, its θ_i
	ownCA := make([]*big.Int, n)
	var own pin
	for _, m := range nd.Emitted {
		c := m.(tss.ParsedMessage).Content()
		if c11, ok := c.(*ecdsasigning.SignRound1Message1); ok && len(m.GetTo()) == 1 {
			ownCA[m.GetTo()[0].Index] = new(big.Int).SetBytes(c11.GetC())
			continue
		}
		set(&own, c)
	}
	// the round the party failed in (0 = it did not fail)
	failed := 0
	if nd.Err != nil {
		failed = nd.Err.Round()
	}
	judge := func(round int, op string, have bool, args func() []string) bool {
		if !have || (failed != 0 && failed < round) {
			return false
		}
		goRes := "ok pass"
		if failed == round {
			// rounds 2 and 3 list a peer once per failed step (two goroutines per peer, in finishing order): compared as a set
			var cs []string
			for _, c := range strings.Split(strings.ReplaceAll(culpritSet(net, nd.Err), " ", ""), ",") {
				if len(cs) == 0 || cs[len(cs)-1] != c {
					cs = append(cs, c)
				}
			}
			goRes = "ok fail culprits=" + strings.Join(cs, ",")
		}
		lean := r.model.Call(op, args()...)
		line := fmt.Sprintf("%s signer %d (%s)", op, i, what)
		r.count(op, goRes, true, line)
		r.Dist[op+"/"+strings.Fields(goRes)[1]]++
		r.Traces++
		// canonical form of the model's answer: "ok pass" / "ok fail culprits=a,b"
		cmp := lean
		f := strings.Fields(lean)
		switch {
		case len(f) >= 2 && f[0] == "ok" && strings.HasPrefix(f[1], "culprits="):
			if f[1] == "culprits=_" {
				cmp = "ok pass"
			} else {
				cmp = "ok fail " + f[1]
			}
		case len(f) >= 2 && f[1] == "pass":
			cmp = "ok pass"
		case len(f) >= 3 && f[1] == "fail":
			cmp = strings.Join(f[:3], " ")
		}
		if cmp != goRes {
			r.fail(Failure{Kind: "diff", Key: "blame/ecdsa-signing-round" + fmt.Sprint(round) + "/" + what, Op: line, Go: goRes, Lean: lean})
		}
		return failed != round
	}
	peersOf := func(f func(j int, p *pin) (string, bool)) (string, bool) {
		var out []string
		for j := 0; j < n; j++ {
			if j == i {
				continue
			}
			s, ok := f(j, &in[j])
			if !ok {
				return "", false
			}
			out = append(out, s)
		}
		return strings.Join(out, ";"), true
	}
	// round 2
	p2, ok2 := peersOf(func(j int, p *pin) (string, bool) {
		if p.m11 == nil || p.m12 == nil {
			return "", false
		}
		return fmt.Sprintf("%d/%s/%s/%s", j, eInt(key.PaillierPKs[j].N), natHex(p.m11.GetC()), bytesListHex(p.m11.GetRangeProofAlice())), true
	})
	if !judge(2, "ec_sg_round2", ok2, func() []string { return []string{eInt(key.NTildej[i]), eInt(key.H1j[i]), eInt(key.H2j[i]), p2} }) {
		return
	}
	// round 3
	p3, ok3 := peersOf(func(j int, p *pin) (string, bool) {
		if p.m2 == nil || ownCA[j] == nil {
			return "", false
		}
		return fmt.Sprintf("%d/%s/%s/%s/%s/%s/%s", j, eInt(ownCA[j]), natHex(p.m2.GetC1()), bytesListHex(p.m2.GetProofBob()), natHex(p.m2.GetC2()),
			bytesListHex(p.m2.GetProofBobWc()), ePoint(bigWs[j])), true
	})
	sk := key.PaillierSK
	if !judge(3, "ec_sg_round3", ok3, func() []string {
		return []string{eBytes(ssid), eInt(sk.N), eInt(sk.LambdaN), eInt(sk.PhiN), eInt(key.NTildej[i]), eInt(key.H1j[i]), eInt(key.H2j[i]), p3}
	}) {
		return
	}
	// round 5
	p5, ok5 := peersOf(func(j int, p *pin) (string, bool) {
		if p.m3 == nil || p.m4 == nil || p.m12 == nil {
			return "", false
		}
		return fmt.Sprintf("%d/%s/%s/%s:%s/%s", j, natHex(p.m12.GetCommitment()), natsHex(p.m4.GetDeCommitment()), natHex(p.m4.GetProofAlphaX()), natHex(p.m4.GetProofAlphaY()),
			natHex(p.m4.GetProofT())), true
	})
	var ownGamma *crypto.ECPoint
	if own.m4 != nil && len(own.m4.GetDeCommitment()) == 3 {
		ownGamma, _ = crypto.NewECPoint(ec, new(big.Int).SetBytes(own.m4.GetDeCommitment()[1]), new(big.Int).SetBytes(own.m4.GetDeCommitment()[2]))
	}
	if !judge(5, "ec_sg_round5", ok5 && ownGamma != nil, func() []string { return []string{eBytes(ssid), ePoint(ownGamma), p5} }) {
		return
	}
	// round 7: R = θ⁻¹·(Γ_i + Σ Γ_j), θ = Σ θ_j
	theta := new(big.Int)
	sum := ownGamma
	okR := own.m3 != nil
	if okR {
		theta.SetBytes(own.m3.GetTheta())
	}
	for j := 0; j < n && okR; j++ {
		if j == i {
			continue
		}
		theta.Add(theta, new(big.Int).SetBytes(in[j].m3.GetTheta()))
		d := in[j].m4.GetDeCommitment()
		g, err := crypto.NewECPoint(ec, new(big.Int).SetBytes(d[1]), new(big.Int).SetBytes(d[2]))
		if err != nil {
			okR = false
			break
		}
		if sum, err = sum.Add(g); err != nil {
			okR = false
		}
	}
	var bigR *crypto.ECPoint
	if okR {
		if inv := new(big.Int).ModInverse(theta.Mod(theta, q), q); inv != nil {
			bigR = sum.ScalarMult(inv)
		}
	}
	p7, ok7 := peersOf(func(j int, p *pin) (string, bool) {
		if p.m5 == nil || p.m6 == nil {
			return "", false
		}
		return fmt.Sprintf("%d/%s/%s/%s:%s/%s/%s:%s/%s/%s", j, natHex(p.m5.GetCommitment()), natsHex(p.m6.GetDeCommitment()), natHex(p.m6.GetProofAlphaX()), natHex(p.m6.GetProofAlphaY()),
			natHex(p.m6.GetProofT()), natHex(p.m6.GetVProofAlphaX()), natHex(p.m6.GetVProofAlphaY()), natHex(p.m6.GetVProofT()), natHex(p.m6.GetVProofU())), true
	})
	if !judge(7, "ec_sg_round7", ok7 && bigR != nil, func() []string { return []string{eBytes(ssid), ePoint(bigR), p7} }) {
		return
	}
	// round 9: the party's own U_i, T_i are what it opened in its SignRound8Message
	p9, ok9 := peersOf(func(j int, p *pin) (string, bool) {
		if p.m7 == nil || p.m8 == nil {
			return "", false
		}
		return fmt.Sprintf("%d/%s/%s", j, natHex(p.m7.GetCommitment()), natsHex(p.m8.GetDeCommitment())), true
	})
	var ownU, ownT *crypto.ECPoint
	if own.m8 != nil && len(own.m8.GetDeCommitment()) == 5 {
		d := own.m8.GetDeCommitment()
		ownU, _ = crypto.NewECPoint(ec, new(big.Int).SetBytes(d[1]), new(big.Int).SetBytes(d[2]))
		ownT, _ = crypto.NewECPoint(ec, new(big.Int).SetBytes(d[3]), new(big.Int).SetBytes(d[4]))
	}
	judge(9, "ec_sg_round9", ok9 && ownU != nil && ownT != nil, func() []string { return []string{"1", fmt.Sprint(i), ePoint(ownU), ePoint(ownT), p9} })
}
