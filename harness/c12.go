package main

import (
	"fmt"
	"math/big"
	"math/rand"
	"strings"

	"github.com/bnb-chain/tss-lib/v2/crypto"
)

func init() { props["C12"] = runC12 }

func runC12(r *Run, rng *rand.Rand, thorough bool) {
	r.Rule = "cross-verification with substitutions: every accepted proof (Go- and model-made) is re-judged by both verifiers under another session, another statement component and every single-component perturbation (+1, -1, random, zero, neighbour swap; all indices of the repeated parts in the thorough tier) and commitment/response shift attacks; non-trivial = distinct verify op; direct assertion: the Go verifier accepts none of them"
	cases := honestCases(r, rng, thorough)
	perSys := map[string]int{}
	for _, c := range cases {
		perSys[c.sys]++
		if !thorough && perSys[c.sys] > 2 {
			continue
		}
		g, _, _ := r.Do(c.sys+"/honest", true, c.op, c.args...)
		if g != "accept" {
			r.Assert(false, c.sys+"/honest", "honest-proof-accepted", func() string { return g })
			continue
		}
		r.Traces++
		judge := func(what string, args []string, detail string) {
			gg, _, _ := r.Do(c.sys+"/"+what, true, c.op, args...)
			r.Assert(gg != "accept", c.sys+"/"+what, "altered-"+strings.Split(what, ":")[0]+"-rejected", func() string { return c.sys + " " + detail + " -> " + gg })
		}
		// other sessions (another participant's context differs by its index suffix)
		if c.sess >= 0 {
			s := dBytes(c.args[c.sess])
			alts := [][]byte{append(append([]byte{}, s...), 0x01), append(append([]byte{}, s...), 0x00), {}, randBytes(rng, 32)}
			if len(s) > 0 {
				t := append([]byte{}, s...)
				t[len(t)-1] ^= 1
				alts = append(alts, t, s[:len(s)-1])
			}
			for _, a := range alts {
				if string(a) == string(s) {
					continue
				}
				args := append([]string{}, c.args...)
				args[c.sess] = eBytes(a)
				judge("session", args, "session "+eBytes(a)[:min(16, len(eBytes(a)))])
			}
		}
		// other statements
		for _, ai := range c.stmt {
			for _, m := range mutationsOf(rng, c, ai, false) {
				if m.name == "zero" || m.name == "random" {
					continue // a different statement, not an attack on binding; covered by C06/C11 grids
				}
				judge("statement", c.with(m), fmt.Sprintf("arg %d %s", ai, m.name))
			}
		}
		// single-component perturbations of the proof
		for _, ai := range c.proof {
			for _, m := range mutationsOf(rng, c, ai, thorough) {
				judge("proof:"+m.name, c.with(m), fmt.Sprintf("arg %d idx %d %s", ai, m.idx, m.name))
			}
		}
		// shift attacks along the verified relation
		switch {
		case strings.HasPrefix(c.sys, "schnorr/"):
			cv := curveByTag(c.args[0])
			d := bi(int64(1 + rng.Intn(1000)))
			al := dPoint(cv, c.args[3])
			if sh, err := al.Add(crypto.ScalarBaseMult(cv, d)); err == nil {
				args := append([]string{}, c.args...)
				args[3] = ePoint(sh)
				args[4] = eInt(new(big.Int).Add(dInt(c.args[4]), d))
				judge("shift", args, "alpha+dG, t+d")
			}
		case c.sys == "dln":
			al, t := dInts(c.args[0]), dInts(c.args[1])
			h1, n := dInt(c.args[2]), dInt(c.args[4])
			i := rng.Intn(len(al))
			d := bi(int64(1 + rng.Intn(1000)))
			al2 := append([]*big.Int{}, al...)
			t2 := append([]*big.Int{}, t...)
			al2[i] = new(big.Int).Mod(new(big.Int).Mul(al[i], new(big.Int).Exp(h1, d, n)), n)
			t2[i] = new(big.Int).Add(t[i], d)
			args := append([]string{}, c.args...)
			args[0], args[1] = eInts(al2), eInts(t2)
			judge("shift", args, "alpha_i*h1^d, t_i+d")
		case c.sys == "range":
			// w·h2^d with s2+d keeps equation 5 but changes the challenge pre-image
			pf := dInts(c.args[6])
			nt, h2 := dInt(c.args[2]), dInt(c.args[4])
			d := bi(int64(1 + rng.Intn(1000)))
			pf2 := append([]*big.Int{}, pf...)
			pf2[2] = new(big.Int).Mod(new(big.Int).Mul(pf[2], new(big.Int).Exp(h2, d, nt)), nt)
			pf2[5] = new(big.Int).Add(pf[5], d)
			args := append([]string{}, c.args...)
			args[6] = eInts(pf2)
			judge("shift", args, "w*h2^d, s2+d")
		case c.sys == "fac":
			pf := dInts(c.args[6])
			ncap, tt := dInt(c.args[3]), dInt(c.args[5])
			d := bi(int64(1 + rng.Intn(1000)))
			pf2 := append([]*big.Int{}, pf...)
			pf2[2] = new(big.Int).Mod(new(big.Int).Mul(pf[2], new(big.Int).Exp(tt, d, ncap)), ncap) // A·t^d
			pf2[8] = new(big.Int).Add(pf[8], d)                                                     // w1 + d
			args := append([]string{}, c.args...)
			args[6] = eInts(pf2)
			judge("shift", args, "A*t^d, w1+d")
		case c.sys == "bob" || c.sys == "bobwc":
			pf := dInts(c.args[8])
			nt, h2 := dInt(c.args[3]), dInt(c.args[5])
			d := bi(int64(1 + rng.Intn(1000)))
			pf2 := append([]*big.Int{}, pf...)
			pf2[4] = new(big.Int).Mod(new(big.Int).Mul(pf[4], new(big.Int).Exp(h2, d, nt)), nt) // w·h2^d
			pf2[9] = new(big.Int).Add(pf[9], d)                                                 // t2 + d
			args := append([]string{}, c.args...)
			args[8] = eInts(pf2)
			judge("shift", args, "w*h2^d, t2+d")
		}
	}
}
