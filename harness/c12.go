package main

import (
	"fmt"
	"math/big"
	"math/rand"
	"runtime"
	"strings"

	"github.com/bnb-chain/tss-lib/v2/crypto"
)

func init() { props["C12"] = runC12 }

func runC12(r *Run, rng *rand.Rand, thorough bool) {
	r.Rule = "cross-verification with substitutions: every accepted proof (Go- and model-made) is re-judged by both verifiers under another session, another statement component and every single-component perturbation (+1, -1, random, zero, neighbour swap; in the thorough tier all indices of parts up to 40 elements and the first four, the last four and every eighth index of the 80- and 128-fold parts) and commitment/response shift attacks along every checked relation (each commitment moved along each of its bases with the matching responses), additive inverses modulo every modulus of the statement; non-trivial = distinct verify op; direct assertion: the Go verifier accepts none of them"
	cases := honestCases(r, rng, thorough)
	perSys := map[string]int{}
	for _, c := range cases {
		perSys[c.sys]++
		if !thorough && perSys[c.sys] > 2 || thorough && perSys[c.sys] > 6 {
			continue
		}
		g, _, _ := r.Do(c.sys+"/honest", true, c.op, c.args...)
		if g != "accept" {
			r.Assert(false, c.sys+"/honest", "honest-proof-accepted", func() string { return g })
			continue
		}
		r.Traces++
		judge := func(what string, args []string, detail string) {
			gg, _, _ := r.Do(c.sys+"/"+what, true, c.op, args...)
			r.Assert(gg != "accept", c.sys+"/"+what, "altered-"+strings.Split(what, ":")[0]+"-rejected", func() string { return c.sys + " " + detail + " -> " + gg })
		}
		// other sessions (another participant's context differs by its index suffix)
		if c.sess >= 0 {
			s := dBytes(c.args[c.sess])
			alts := [][]byte{append(append([]byte{}, s...), 0x01), append(append([]byte{}, s...), 0x00), {}, randBytes(rng, 32)}
			if len(s) > 0 {
				t := append([]byte{}, s...)
				t[len(t)-1] ^= 1
				alts = append(alts, t, s[:len(s)-1])
			}
			for _, a := range alts {
				if string(a) == string(s) {
					continue
				}
				args := append([]string{}, c.args...)
				args[c.sess] = eBytes(a)
				judge("session", args, "session "+eBytes(a)[:min(16, len(eBytes(a)))])
			}
		}
		// other statements
		for _, ai := range c.stmt {
			for _, m := range mutationsOf(rng, c, ai, false) {
				if m.name == "zero" || m.name == "random" {
					continue // a different statement, not an attack on binding; covered by C06/C11 grids
				}
				judge("statement", c.with(m), fmt.Sprintf("arg %d %s", ai, m.name))
			}
		}
		// single-component perturbations of the proof
		for _, ai := range c.proof {
			for _, m := range mutationsOf(rng, c, ai, thorough) {
				judge("proof:"+m.name, c.with(m), fmt.Sprintf("arg %d idx %d %s", ai, m.idx, m.name))
			}
		}
		// the repeated parts are verified by worker goroutines: the tail indices again under processor counts that do
		// not divide the repetition count (the verdict must not depend on how the work is split)
		if c.sys == "mod" || c.sys == "dln" {
			lists := []int{2, 5}
			if c.sys == "dln" {
				lists = []int{0, 1}
			}
			procsList := []int{3, 7}
			if thorough {
				procsList = []int{3, 6, 7, 9, 12, 32, 64}
			}
			prev := runtime.GOMAXPROCS(0)
			for _, procs := range procsList {
				runtime.GOMAXPROCS(procs)
				for _, ai := range lists {
					l := dInts(c.args[ai])
					n := len(l)
					idxs := []int{n - 1, n - 2, n - 1 - rng.Intn(16), n - 1 - rng.Intn(n)}
					for _, i := range idxs {
						if i < 0 || i >= n {
							continue
						}
						for _, v := range []*big.Int{bi(1), new(big.Int).Add(l[i], bi(1))} {
							l2 := append([]*big.Int{}, l...)
							l2[i] = v
							args := append([]string{}, c.args...)
							args[ai] = eInts(l2)
							gg := goOps[c.op](args)
							r.Evals++
							r.Dist[fmt.Sprintf("%s/procs=%d", c.sys, procs)]++
							r.Assert(gg != "accept", c.sys+"/proof:procs", "altered-proof-rejected", func() string {
								return fmt.Sprintf("%s arg %d idx %d replaced, GOMAXPROCS=%d -> %s", c.sys, ai, i, procs, gg)
							})
						}
					}
				}
			}
			runtime.GOMAXPROCS(prev)
		}
		// shift attacks along every relation the verifier checks: a commitment is moved along one base and the
		// response(s) that multiply that base are moved with it, so the checked equation still holds and only the
		// challenge (which must cover the commitment) makes the verifier reject
		d := bi(int64(1 + rng.Intn(1000)))
		mulExp := func(v, base, e, m *big.Int) *big.Int { // v·base^e mod m
			return new(big.Int).Mod(new(big.Int).Mul(v, new(big.Int).Exp(base, e, m)), m)
		}
		plus := func(v, e *big.Int) *big.Int { return new(big.Int).Add(v, e) }
		shiftList := func(ai int, detail string, f func(pf []*big.Int) []*big.Int) {
			pf2 := f(append([]*big.Int{}, dInts(c.args[ai])...))
			if pf2 == nil {
				return
			}
			args := append([]string{}, c.args...)
			args[ai] = eInts(pf2)
			judge("shift", args, detail)
		}
		switch {
		case strings.HasPrefix(c.sys, "schnorr/"):
			cv := curveByTag(c.args[0])
			al := dPoint(cv, c.args[3])
			if sh, err := al.Add(crypto.ScalarBaseMult(cv, d)); err == nil {
				args := append([]string{}, c.args...)
				args[3] = ePoint(sh)
				args[4] = eInt(plus(dInt(c.args[4]), d))
				judge("shift", args, "alpha+dG, t+d")
			}
		case strings.HasPrefix(c.sys, "schnorrv/"):
			// t·R + u·G = alpha + c·V
			cv := curveByTag(c.args[0])
			R, al := dPoint(cv, c.args[3]), dPoint(cv, c.args[4])
			if sh, err := al.Add(crypto.ScalarBaseMult(cv, d)); err == nil {
				args := append([]string{}, c.args...)
				args[4], args[6] = ePoint(sh), eInt(plus(dInt(c.args[6]), d))
				judge("shift", args, "alpha+dG, u+d")
			}
			if sh, err := al.Add(R.ScalarMult(d)); err == nil {
				args := append([]string{}, c.args...)
				args[4], args[5] = ePoint(sh), eInt(plus(dInt(c.args[5]), d))
				judge("shift", args, "alpha+dR, t+d")
			}
		case c.sys == "dln":
			al, t := dInts(c.args[0]), dInts(c.args[1])
			h1, n := dInt(c.args[2]), dInt(c.args[4])
			for _, i := range []int{0, rng.Intn(len(al)), len(al) - 1} {
				al2 := append([]*big.Int{}, al...)
				t2 := append([]*big.Int{}, t...)
				al2[i] = mulExp(al[i], h1, d, n)
				t2[i] = plus(t[i], d)
				args := append([]string{}, c.args...)
				args[0], args[1] = eInts(al2), eInts(t2)
				judge("shift", args, fmt.Sprintf("alpha_%d*h1^d, t_%d+d", i, i))
			}
		case c.sys == "range":
			// u = Γ^s1·s^N·c^-e (mod N²), w = h1^s1·h2^s2·z^-e (mod Ñ); proof = (z, u, w, s, s1, s2)
			n, nt, h1, h2 := dInt(c.args[1]), dInt(c.args[2]), dInt(c.args[3]), dInt(c.args[4])
			n2 := new(big.Int).Mul(n, n)
			gamma := plus(n, bi(1))
			shiftList(6, "w*h2^d, s2+d", func(pf []*big.Int) []*big.Int {
				pf[2], pf[5] = mulExp(pf[2], h2, d, nt), plus(pf[5], d)
				return pf
			})
			shiftList(6, "u*Gamma^d, w*h1^d, s1+d", func(pf []*big.Int) []*big.Int {
				pf[1], pf[2], pf[4] = mulExp(pf[1], gamma, d, n2), mulExp(pf[2], h1, d, nt), plus(pf[4], d)
				return pf
			})
			shiftList(6, "u*k^N, s*k", func(pf []*big.Int) []*big.Int {
				k := plus(d, bi(1))
				pf[1], pf[3] = mulExp(pf[1], k, n, n2), new(big.Int).Mod(new(big.Int).Mul(pf[3], k), n)
				return pf
			})
		case c.sys == "fac":
			// s^z1·t^w1 = A·P^e, s^z2·t^w2 = B·Q^e, Q^z1·t^v = T·(s^N0·t^sigma)^e (mod N̂)
			// proof = (P, Q, A, B, T, sigma, z1, z2, w1, w2, v)
			ncap, ss, tt := dInt(c.args[3]), dInt(c.args[4]), dInt(c.args[5])
			shiftList(6, "A*t^d, w1+d", func(pf []*big.Int) []*big.Int {
				pf[2], pf[8] = mulExp(pf[2], tt, d, ncap), plus(pf[8], d)
				return pf
			})
			shiftList(6, "B*t^d, w2+d", func(pf []*big.Int) []*big.Int {
				pf[3], pf[9] = mulExp(pf[3], tt, d, ncap), plus(pf[9], d)
				return pf
			})
			shiftList(6, "T*t^d, v+d", func(pf []*big.Int) []*big.Int {
				pf[4], pf[10] = mulExp(pf[4], tt, d, ncap), plus(pf[10], d)
				return pf
			})
			shiftList(6, "A*s^d, T*Q^d, z1+d", func(pf []*big.Int) []*big.Int {
				pf[2], pf[4], pf[6] = mulExp(pf[2], ss, d, ncap), mulExp(pf[4], pf[1], d, ncap), plus(pf[6], d)
				return pf
			})
			shiftList(6, "B*s^d, z2+d", func(pf []*big.Int) []*big.Int {
				pf[3], pf[7] = mulExp(pf[3], ss, d, ncap), plus(pf[7], d)
				return pf
			})
		case c.sys == "bob" || c.sys == "bobwc":
			// h1^s1·h2^s2 = z^e·z', h1^t1·h2^t2 = t^e·w (mod Ñ), c1^s1·s^N·Γ^t1 = c2^e·v (mod N²), [s1·G = U + e·X]
			// proof = (z, z', t, v, w, s, s1, s2, t1, t2)
			n, nt, h1, h2, c1 := dInt(c.args[2]), dInt(c.args[3]), dInt(c.args[4]), dInt(c.args[5]), dInt(c.args[6])
			n2 := new(big.Int).Mul(n, n)
			gamma := plus(n, bi(1))
			shiftList(8, "w*h2^d, t2+d", func(pf []*big.Int) []*big.Int {
				pf[4], pf[9] = mulExp(pf[4], h2, d, nt), plus(pf[9], d)
				return pf
			})
			shiftList(8, "z'*h2^d, s2+d", func(pf []*big.Int) []*big.Int {
				pf[1], pf[7] = mulExp(pf[1], h2, d, nt), plus(pf[7], d)
				return pf
			})
			shiftList(8, "v*k^N, s*k", func(pf []*big.Int) []*big.Int {
				k := plus(d, bi(1))
				pf[3], pf[5] = mulExp(pf[3], k, n, n2), new(big.Int).Mod(new(big.Int).Mul(pf[5], k), n)
				return pf
			})
			shiftList(8, "w*h1^d, v*Gamma^d, t1+d", func(pf []*big.Int) []*big.Int {
				pf[4], pf[3], pf[8] = mulExp(pf[4], h1, d, nt), mulExp(pf[3], gamma, d, n2), plus(pf[8], d)
				return pf
			})
			{
				pf := append([]*big.Int{}, dInts(c.args[8])...)
				pf[1], pf[3], pf[6] = mulExp(pf[1], h1, d, nt), mulExp(pf[3], c1, d, n2), plus(pf[6], d)
				args := append([]string{}, c.args...)
				args[8] = eInts(pf)
				okU := true
				if c.sys == "bobwc" {
					cv := curveByTag(c.args[0])
					sh, err := dPoint(cv, c.args[10]).Add(crypto.ScalarBaseMult(cv, d))
					okU = err == nil
					if okU {
						args[10] = ePoint(sh)
					}
				}
				if okU {
					judge("shift", args, "z'*h1^d, v*c1^d, s1+d[, U+dG]")
				}
			}
		}
	}
}
