package main

import (
	"fmt"
	"math/big"
	"math/rand"
	"strings"

	"github.com/bnb-chain/tss-lib/v2/crypto"
)

// element-level view of an op argument: a single integer, a point "x:y", or a comma list of integers
func argKind(s string) string {
	if strings.Contains(s, ":") {
		return "point"
	}
	if strings.Contains(s, ",") {
		return "list"
	}
	return "int"
}

type mutation struct {
	name string
	arg  int
	idx  int // element index for lists, -1 otherwise
	val  string
}

// perturbations of one integer value
func intPerturbations(rng *rand.Rand, v *big.Int) map[string]*big.Int {
	return map[string]*big.Int{
		"+1":     new(big.Int).Add(v, bi(1)),
		"-1":     new(big.Int).Sub(v, bi(1)),
		"random": randInt(rng, maxInt(v.BitLen(), 8)),
		"zero":   bi(0),
	}
}

func maxInt(a, b int) int {
	if a > b {
		return a
	}
	return b
}

// mutationsOf enumerates single-component perturbations of argument `ai` of a case.
// everyIndex=false samples a few indices of long lists.
func mutationsOf(rng *rand.Rand, c *zkCase, ai int, everyIndex bool) []mutation {
	s := c.args[ai]
	var out []mutation
	// additive inverses modulo every modulus the statement names (and its square, and the curve order)
	var mods []*big.Int
	modNames := []string{}
	if c.args[0] == "s256" || c.args[0] == "ed" {
		mods = append(mods, curveByTag(c.args[0]).Params().N)
		modNames = append(modNames, "q")
	}
	for _, si := range c.stmt {
		if argKind(c.args[si]) != "int" {
			continue
		}
		m := dInt(c.args[si])
		if m.BitLen() < 200 || m.Bit(0) == 0 {
			continue
		}
		mods = append(mods, m, new(big.Int).Mul(m, m))
		modNames = append(modNames, fmt.Sprintf("arg%d", si), fmt.Sprintf("arg%d^2", si))
	}
	type named struct {
		name string
		v    *big.Int
	}
	// the verifier's own ring-Pedersen parameters (Ñ, h1, h2) of Alice's range proof and Bob's proofs are its
	// setup, not part of the public statement; the challenge does not cover them and -h1 in their place is
	// accepted whenever the responses it is raised to are even. No other party can make the verifier use them.
	isAux := false
	for _, a := range c.aux {
		isAux = isAux || a == ai
	}
	negs := func(v *big.Int) []named {
		var o []named
		if isAux {
			return nil
		}
		for k, m := range mods {
			if v.Sign() > 0 && v.Cmp(m) < 0 {
				o = append(o, named{"neg-mod-" + modNames[k], new(big.Int).Sub(m, v)})
			}
		}
		return o
	}
	switch argKind(s) {
	case "point":
		tag := c.args[0]
		if tag != "s256" && tag != "ed" {
			tag = "s256"
		}
		cv := curveByTag(tag)
		p := dPoint(cv, s)
		// the other point with the same x (same y on edwards): -P
		fp := cv.Params().P
		if tag == "ed" {
			if nx := new(big.Int).Mod(new(big.Int).Neg(p.X()), fp); nx.Cmp(p.X()) != 0 {
				out = append(out, mutation{"point-negated", ai, -1, ePoint(crypto.NewECPointNoCurveCheck(cv, nx, p.Y()))})
			}
		} else if ny := new(big.Int).Mod(new(big.Int).Neg(p.Y()), fp); ny.Cmp(p.Y()) != 0 {
			out = append(out, mutation{"point-negated", ai, -1, ePoint(crypto.NewECPointNoCurveCheck(cv, p.X(), ny))})
		}
		g := crypto.ScalarBaseMult(cv, bi(1))
		if q, err := p.Add(g); err == nil {
			out = append(out, mutation{"point+G", ai, -1, ePoint(q)})
		}
		out = append(out, mutation{"point=random", ai, -1, ePoint(crypto.ScalarBaseMult(cv, new(big.Int).Add(randInt(rng, 200), bi(2))))})
	case "list":
		els := strings.Split(s, ",")
		idxs := []int{}
		if everyIndex && len(els) > 40 {
			// thorough tier on the long repeated parts: the first and last four indices and every eighth in between
			for i := range els {
				if i < 4 || i >= len(els)-4 || i%8 == 0 {
					idxs = append(idxs, i)
				}
			}
		} else if everyIndex || len(els) <= 12 {
			for i := range els {
				idxs = append(idxs, i)
			}
		} else {
			idxs = []int{0, 1, len(els) / 2, len(els) - 2, len(els) - 1, rng.Intn(len(els)), rng.Intn(len(els))}
		}
		for _, i := range idxs {
			v := dInt(els[i])
			for name, nv := range intPerturbations(rng, v) {
				if nv.Sign() < 0 || nv.Cmp(v) == 0 {
					continue
				}
				cp := append([]string{}, els...)
				cp[i] = eInt(nv)
				out = append(out, mutation{name, ai, i, strings.Join(cp, ",")})
			}
			if i == idxs[0] || i == idxs[len(idxs)-1] {
				for _, nn := range negs(v) {
					cp := append([]string{}, els...)
					cp[i] = eInt(nn.v)
					out = append(out, mutation{nn.name, ai, i, strings.Join(cp, ",")})
				}
			}
			if i+1 < len(els) && els[i] != els[i+1] {
				cp := append([]string{}, els...)
				cp[i], cp[i+1] = cp[i+1], cp[i]
				out = append(out, mutation{"swap", ai, i, strings.Join(cp, ",")})
			}
		}
	default:
		if s == "nil" {
			return nil
		}
		v := dInt(s)
		for name, nv := range intPerturbations(rng, v) {
			if nv.Sign() < 0 || nv.Cmp(v) == 0 {
				continue
			}
			out = append(out, mutation{name, ai, -1, eInt(nv)})
		}
		for _, nn := range negs(v) {
			out = append(out, mutation{nn.name, ai, -1, eInt(nn.v)})
		}
	}
	return out
}

func (c *zkCase) with(m mutation) []string {
	a := append([]string{}, c.args...)
	a[m.arg] = m.val
	return a
}
