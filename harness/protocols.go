package main

import (
	"fmt"
	"math/big"
	"math/rand"

	"github.com/bnb-chain/tss-lib/v2/common"
	ecdsakeygen "github.com/bnb-chain/tss-lib/v2/ecdsa/keygen"
	ecdsaresharing "github.com/bnb-chain/tss-lib/v2/ecdsa/resharing"
	ecdsasigning "github.com/bnb-chain/tss-lib/v2/ecdsa/signing"
	eddsakeygen "github.com/bnb-chain/tss-lib/v2/eddsa/keygen"
	eddsaresharing "github.com/bnb-chain/tss-lib/v2/eddsa/resharing"
	eddsasigning "github.com/bnb-chain/tss-lib/v2/eddsa/signing"
	"github.com/bnb-chain/tss-lib/v2/tss"
)

func makePIDs(keys []*big.Int, prefix string) tss.SortedPartyIDs {
	ids := make(tss.UnSortedPartyIDs, len(keys))
	for i, k := range keys {
		ids[i] = tss.NewPartyID(fmt.Sprintf("%s%d", prefix, i), fmt.Sprintf("%s%d", prefix, i), k)
	}
	return tss.SortPartyIDs(ids)
}

func partyKeys(rng *rand.Rand, n int, pattern int, q *big.Int) []*big.Int {
	keys := make([]*big.Int, n)
	for i := range keys {
		switch pattern % 5 {
		case 0:
			keys[i] = big.NewInt(int64(i + 1))
		case 1:
			keys[i] = new(big.Int).Add(randInt(rng, 256), big.NewInt(1))
		case 2: // around the group order
			keys[i] = new(big.Int).Add(q, big.NewInt(int64(2*i+1)))
		case 3: // leading zero bytes in the 32-byte encoding
			keys[i] = new(big.Int).Add(randInt(rng, 200), big.NewInt(int64(i+1)))
		default:
			keys[i] = new(big.Int).Sub(q, big.NewInt(int64(i+1)))
		}
	}
	return keys
}

func newNode(name string, id *tss.PartyID, role string, seed int64) *Node {
	return &Node{Name: name, ID: id, Role: role, Out: make(chan tss.Message, 4096), Rand: newLockedRand(seed)}
}

// --- EdDSA keygen ---
func eddsaKeygenNet(rng *rand.Rand, n, t int, keys []*big.Int) *Net {
	pids := makePIDs(keys, "P")
	ctx := tss.NewPeerContext(pids)
	net := &Net{Route: routeAllToAll}
	for i := 0; i < n; i++ {
		nd := newNode(fmt.Sprintf("P%d", i), pids[i], "", rng.Int63())
		end := make(chan *eddsakeygen.LocalPartySaveData, 16)
		params := tss.NewParameters(tss.Edwards(), ctx, pids[i], n, t)
		applyConcurrency(params)
		params.SetRand(nd.Rand)
		params.SetPartialKeyRand(nd.Rand)
		nd.Party = eddsakeygen.NewLocalParty(params, nd.Out, end)
		nd.drainEnd = func() []interface{} {
			var out []interface{}
			for {
				select {
				case s := <-end:
					out = append(out, s)
				default:
					return out
				}
			}
		}
		net.Nodes = append(net.Nodes, nd)
	}
	return net
}

// --- ECDSA keygen (vendored pre-parameters) ---
func ecdsaKeygenNet(rng *rand.Rand, n, t int, keys []*big.Int, preOffset int) *Net {
	fx := loadFixtures()
	pids := makePIDs(keys, "P")
	ctx := tss.NewPeerContext(pids)
	net := &Net{Route: routeAllToAll}
	for i := 0; i < n; i++ {
		nd := newNode(fmt.Sprintf("P%d", i), pids[i], "", rng.Int63())
		end := make(chan *ecdsakeygen.LocalPartySaveData, 16)
		params := tss.NewParameters(tss.S256(), ctx, pids[i], n, t)
		applyConcurrency(params)
		params.SetRand(nd.Rand)
		params.SetPartialKeyRand(nd.Rand)
		nd.Party = ecdsakeygen.NewLocalParty(params, nd.Out, end, fx[(i+preOffset)%len(fx)].LocalPreParams)
		nd.Secrets = preParamSecrets(fx[(i+preOffset)%len(fx)].LocalPreParams)
		nd.drainEnd = func() []interface{} {
			var out []interface{}
			for {
				select {
				case s := <-end:
					out = append(out, s)
				default:
					return out
				}
			}
		}
		net.Nodes = append(net.Nodes, nd)
	}
	return net
}

func sigDrain(end chan *common.SignatureData) func() []interface{} {
	return func() []interface{} {
		var out []interface{}
		for {
			select {
			case s := <-end:
				out = append(out, s)
			default:
				return out
			}
		}
	}
}

// --- EdDSA signing: keys[i] belongs to signer pids[i] (already the chosen subset, sorted) ---
func eddsaSigningNet(rng *rand.Rand, keys []eddsakeygen.LocalPartySaveData, pids tss.SortedPartyIDs, t int, msg *big.Int, fullBytesLen int) *Net {
	ctx := tss.NewPeerContext(pids)
	net := &Net{Route: routeAllToAll}
	for i := range pids {
		nd := newNode(fmt.Sprintf("P%d", i), pids[i], "", rng.Int63())
		end := make(chan *common.SignatureData, 16)
		params := tss.NewParameters(tss.Edwards(), ctx, pids[i], len(pids), t)
		applyConcurrency(params)
		params.SetRand(nd.Rand)
		if fullBytesLen >= 0 {
			nd.Party = eddsasigning.NewLocalParty(msg, params, keys[i], nd.Out, end, fullBytesLen)
		} else {
			nd.Party = eddsasigning.NewLocalParty(msg, params, keys[i], nd.Out, end)
		}
		nd.Secrets = append(shareSecrets(keys[i].Xi), weightedShareSecret(pids, i, keys[i].Xi, tss.Edwards().Params().N)...)
		nd.drainEnd = sigDrain(end)
		net.Nodes = append(net.Nodes, nd)
	}
	return net
}

// --- ECDSA signing ---
func ecdsaSigningNet(rng *rand.Rand, keys []ecdsakeygen.LocalPartySaveData, pids tss.SortedPartyIDs, t int, msg *big.Int, fullBytesLen int, kdd *big.Int) *Net {
	ctx := tss.NewPeerContext(pids)
	net := &Net{Route: routeAllToAll}
	for i := range pids {
		nd := newNode(fmt.Sprintf("P%d", i), pids[i], "", rng.Int63())
		end := make(chan *common.SignatureData, 16)
		params := tss.NewParameters(tss.S256(), ctx, pids[i], len(pids), t)
		applyConcurrency(params)
		params.SetRand(nd.Rand)
		var fl []int
		if fullBytesLen >= 0 {
			fl = []int{fullBytesLen}
		}
		nd.Party = ecdsasigning.NewLocalPartyWithKDD(msg, params, keys[i], kdd, nd.Out, end, fl...)
		nd.Secrets = append(append(shareSecrets(keys[i].Xi), weightedShareSecret(pids, i, keys[i].Xi, tss.S256().Params().N)...), preParamSecrets(keys[i].LocalPreParams)...)
		nd.drainEnd = sigDrain(end)
		net.Nodes = append(net.Nodes, nd)
	}
	return net
}

// resharing routing as in the library's own tests
func routeResharing(nOld int) func(n *Net, from int, msg tss.Message) []int {
	return func(n *Net, from int, msg tss.Message) []int {
		dest := msg.GetTo()
		var out []int
		if dest == nil {
			return nil
		}
		if msg.IsToOldCommittee() || msg.IsToOldAndNewCommittees() {
			lim := nOld
			if lim > len(dest) {
				lim = len(dest)
			}
			for _, p := range dest[:lim] {
				if p.Index != from || from >= nOld {
					out = append(out, p.Index)
				}
			}
		}
		if !msg.IsToOldCommittee() || msg.IsToOldAndNewCommittees() {
			for _, p := range dest {
				if nOld+p.Index != from {
					out = append(out, nOld+p.Index)
				}
			}
		}
		// de-duplicate (ToOldAndNew lists both committees in dest)
		seen := map[int]bool{}
		var res []int
		for _, i := range out {
			if !seen[i] && i < len(n.Nodes) {
				seen[i] = true
				res = append(res, i)
			}
		}
		return res
	}
}

// --- EdDSA resharing: nodes 0..nOld-1 are the participating old members, then the new members ---
func eddsaResharingNet(rng *rand.Rand, oldKeys []eddsakeygen.LocalPartySaveData, oldPIDs tss.SortedPartyIDs, oldT int, newPIDs tss.SortedPartyIDs, newT int) *Net {
	oldCtx, newCtx := tss.NewPeerContext(oldPIDs), tss.NewPeerContext(newPIDs)
	net := &Net{Route: routeResharing(len(oldPIDs))}
	mk := func(name string, id *tss.PartyID, role string, key eddsakeygen.LocalPartySaveData) {
		nd := newNode(name, id, role, rng.Int63())
		end := make(chan *eddsakeygen.LocalPartySaveData, 16)
		params := tss.NewReSharingParameters(tss.Edwards(), oldCtx, newCtx, id, len(oldPIDs), oldT, len(newPIDs), newT)
		applyConcurrency(params)
		params.SetRand(nd.Rand)
		params.SetPartialKeyRand(nd.Rand)
		nd.Party = eddsaresharing.NewLocalParty(params, key, nd.Out, end)
		nd.Secrets = shareSecrets(key.Xi)
		nd.drainEnd = func() []interface{} {
			var out []interface{}
			for {
				select {
				case s := <-end:
					out = append(out, s)
				default:
					return out
				}
			}
		}
		net.Nodes = append(net.Nodes, nd)
	}
	for i, id := range oldPIDs {
		mk(fmt.Sprintf("old%d", i), id, "old", oldKeys[i])
	}
	for i, id := range newPIDs {
		mk(fmt.Sprintf("new%d", i), id, "new", eddsakeygen.NewLocalPartySaveData(len(newPIDs)))
	}
	return net
}

// --- ECDSA resharing ---
func ecdsaResharingNet(rng *rand.Rand, oldKeys []ecdsakeygen.LocalPartySaveData, oldPIDs tss.SortedPartyIDs, oldT int, newPIDs tss.SortedPartyIDs, newT int, proofs bool, preOffset int) *Net {
	fx := loadFixtures()
	oldCtx, newCtx := tss.NewPeerContext(oldPIDs), tss.NewPeerContext(newPIDs)
	net := &Net{Route: routeResharing(len(oldPIDs))}
	mk := func(name string, id *tss.PartyID, role string, key ecdsakeygen.LocalPartySaveData) {
		nd := newNode(name, id, role, rng.Int63())
		end := make(chan *ecdsakeygen.LocalPartySaveData, 16)
		params := tss.NewReSharingParameters(tss.S256(), oldCtx, newCtx, id, len(oldPIDs), oldT, len(newPIDs), newT)
		applyConcurrency(params)
		params.SetRand(nd.Rand)
		params.SetPartialKeyRand(nd.Rand)
		if !proofs {
			params.SetNoProofMod()
			params.SetNoProofFac()
		}
		nd.Party = ecdsaresharing.NewLocalParty(params, key, nd.Out, end)
		nd.Secrets = append(shareSecrets(key.Xi), preParamSecrets(key.LocalPreParams)...)
		nd.drainEnd = func() []interface{} {
			var out []interface{}
			for {
				select {
				case s := <-end:
					out = append(out, s)
				default:
					return out
				}
			}
		}
		net.Nodes = append(net.Nodes, nd)
	}
	for i, id := range oldPIDs {
		mk(fmt.Sprintf("old%d", i), id, "old", oldKeys[i])
	}
	for i, id := range newPIDs {
		save := ecdsakeygen.NewLocalPartySaveData(len(newPIDs))
		save.LocalPreParams = fx[(i+preOffset)%len(fx)].LocalPreParams
		mk(fmt.Sprintf("new%d", i), id, "new", save)
	}
	return net
}

func preParamSecrets(pp ecdsakeygen.LocalPreParams) []namedSecret {
	var out []namedSecret
	add := func(n string, v *big.Int) {
		if v != nil && v.Sign() != 0 {
			out = append(out, namedSecret{n, new(big.Int).Set(v)})
		}
	}
	if pp.PaillierSK != nil {
		add("paillier.P", pp.PaillierSK.P)
		add("paillier.Q", pp.PaillierSK.Q)
		add("paillier.LambdaN", pp.PaillierSK.LambdaN)
		add("paillier.PhiN", pp.PaillierSK.PhiN)
	}
	add("ring-pedersen.alpha", pp.Alpha)
	add("ring-pedersen.beta", pp.Beta)
	add("ring-pedersen.p", pp.P)
	add("ring-pedersen.q", pp.Q)
	return out
}

func shareSecrets(xi *big.Int) []namedSecret {
	if xi == nil || xi.Sign() == 0 {
		return nil
	}
	return []namedSecret{{"x_i", new(big.Int).Set(xi)}}
}

// the Lagrange-weighted share w_i = λ_i·x_i of signer i among the signers `pids`
func weightedShareSecret(pids tss.SortedPartyIDs, i int, xi, q *big.Int) []namedSecret {
	if xi == nil || xi.Sign() == 0 {
		return nil
	}
	num, den := big.NewInt(1), big.NewInt(1)
	ki := new(big.Int).SetBytes(pids[i].Key)
	for j := range pids {
		if j == i {
			continue
		}
		kj := new(big.Int).SetBytes(pids[j].Key)
		num.Mul(num, kj).Mod(num, q)
		den.Mul(den, new(big.Int).Sub(kj, ki)).Mod(den, q)
	}
	inv := new(big.Int).ModInverse(den, q)
	if inv == nil {
		return nil
	}
	w := num.Mul(num, inv).Mul(num, xi).Mod(num, q)
	if w.Sign() == 0 {
		return nil
	}
	return []namedSecret{{"w_i", w}}
}
