package main

import (
	"fmt"
	"math/big"
	"math/rand"
	"strings"

	"github.com/bnb-chain/tss-lib/v2/crypto"
	"github.com/bnb-chain/tss-lib/v2/crypto/dlnproof"
	"github.com/bnb-chain/tss-lib/v2/crypto/facproof"
	"github.com/bnb-chain/tss-lib/v2/crypto/modproof"
	"github.com/bnb-chain/tss-lib/v2/crypto/mta"
	"github.com/bnb-chain/tss-lib/v2/crypto/paillier"
	"github.com/bnb-chain/tss-lib/v2/crypto/schnorr"
	"github.com/bnb-chain/tss-lib/v2/ecdsa/keygen"
)

// zkCase is one accepted (honest) verification: the verify op with its argument strings, and which
// arguments are the session, the statement and the proof.
type zkCase struct {
	aux     []int // statement arguments that are the verifier's own setup
	sys     string
	op      string
	args    []string
	sess    int                            // index of the session argument, -1 if the system has none
	stmt    []int                          // indices of statement arguments
	proof   []int                          // indices of proof arguments (single integers, points, or lists)
	parts   int                            // wire arity (0 = no NonEmptyMultiBytes codec)
	wireTag string                         // curve tag handed to the decoder, for codecs that rebuild a point
	wire    func(args []string) []*big.Int // proof components in wire order
	extreme string                         // non-empty: which coin of the model prover sits at the end of its range
	origin  string                         // "go-prover" | "model-prover"
	witness string
}

func (c *zkCase) clone() *zkCase {
	d := *c
	d.args = append([]string{}, c.args...)
	return &d
}

func sessions(rng *rand.Rand) [][]byte {
	return [][]byte{{}, {0x07}, randBytes(rng, 32), randBytes(rng, 1024)}
}

func witnessGrid(rng *rand.Rand, q *big.Int) []*big.Int {
	lead := new(big.Int).Rsh(randInt(rng, 256), 24) // encoding with leading zero bytes
	return []*big.Int{bi(1), new(big.Int).Sub(q, bi(1)), lead, new(big.Int).Mod(randInt(rng, 256), q), bi(0)}
}

func rdr(rng *rand.Rand) *rand.Rand { return rand.New(rand.NewSource(rng.Int63())) }

func below(rng *rand.Rand, bound *big.Int) *big.Int {
	return new(big.Int).Mod(randInt(rng, bound.BitLen()+64), bound)
}

func unitBelow(rng *rand.Rand, n *big.Int) *big.Int {
	for {
		x := below(rng, n)
		if x.Sign() > 0 && new(big.Int).GCD(nil, nil, x, n).Cmp(bi(1)) == 0 {
			return x
		}
	}
}

// extremeCoin ≥ 0: the model provers' k-th coin is set to the top of its range (bound-1) instead of a random
// value; extremeCoinLow: to the bottom (0, or 1 for unit coins). Consumed by the next model-prover case built.
var extremeCoin = -1
var extremeCoinLow bool

func applyExtreme(coins, bounds []*big.Int, unit []bool) string {
	k := extremeCoin
	if k < 0 || k >= len(coins) {
		return ""
	}
	if extremeCoinLow {
		coins[k] = bi(0)
		if unit[k] {
			coins[k] = bi(1)
		}
		return fmt.Sprintf("coin-%d-lowest", k)
	}
	coins[k] = new(big.Int).Sub(bounds[k], bi(1))
	return fmt.Sprintf("coin-%d-highest", k)
}

// guardProver is deferred by every case builder: a prover that crashes on the (admissible) witness of the case is a
// completeness failure with that witness as the failing input (asserted under C10; other properties only note it)
func guardProver(r *Run, sys string, witness func() string) func() {
	return func() {
		if e := recover(); e != nil {
			if r.Prop == "C10" {
				r.Assert(false, sys+"/prover-crash", "prover-produces-a-proof-for-an-admissible-witness", func() string {
					return fmt.Sprintf("witness %s: panic %v", witness(), e)
				})
			} else {
				r.Note("%s prover crashed on witness %s: %v", sys, witness(), e)
			}
		}
	}
}

// proverRefused: the Go prover returned an error for an admissible witness
func proverRefused(r *Run, sys, witness string, err error) {
	if r.Prop == "C10" {
		r.Assert(false, sys+"/prover-refuses", "prover-produces-a-proof-for-an-admissible-witness", func() string {
			return fmt.Sprintf("witness %s: %v", witness, err)
		})
	} else {
		r.Note("%s prover refused witness %s: %v", sys, witness, err)
	}
}

// --- Schnorr ---
func schnorrCase(r *Run, rng *rand.Rand, tag string, sess []byte, x *big.Int, modelProver bool) *zkCase {
	defer guardProver(r, "schnorr/"+tag, func() string { return eInt(x) })()
	c := curveByTag(tag)
	q := c.Params().N
	if new(big.Int).Mod(x, q).Sign() == 0 && tag == "s256" {
		return nil // X would be the identity: not a statement the API can express on secp256k1
	}
	X := crypto.ScalarBaseMult(c, x)
	zc := &zkCase{sys: "schnorr/" + tag, op: "schnorr_verify", sess: 1, stmt: []int{2}, proof: []int{3, 4}, witness: eInt(x)}
	if modelProver {
		a := new(big.Int).Add(below(rng, new(big.Int).Sub(q, bi(1))), bi(1))
		res := r.model.Call("schnorr_prove", tag, eBytes(sess), eInt(x), ePoint(X), eInt(a))
		f := strings.Fields(res)
		if len(f) != 3 || f[0] != "ok" {
			r.Note("model schnorr_prove: %s", res)
			return nil
		}
		zc.args = []string{tag, eBytes(sess), ePoint(X), f[1], f[2]}
		zc.origin = "model-prover"
		return zc
	}
	pf, err := schnorr.NewZKProof(sess, x, X, rdr(rng))
	if err != nil {
		proverRefused(r, "schnorr/"+tag, eInt(x), err)
		return nil
	}
	zc.args = []string{tag, eBytes(sess), ePoint(X), ePoint(pf.Alpha), eInt(pf.T)}
	zc.origin = "go-prover"
	return zc
}

func schnorrVCase(r *Run, rng *rand.Rand, tag string, sess []byte, s, l *big.Int, modelProver bool) *zkCase {
	defer guardProver(r, "schnorrv/"+tag, func() string { return "s=" + eInt(s) + " l=" + eInt(l) })()
	c := curveByTag(tag)
	q := c.Params().N
	R := crypto.ScalarBaseMult(c, new(big.Int).Add(below(rng, new(big.Int).Sub(q, bi(1))), bi(1)))
	// V = s·R + l·G. A zero s or l is an admissible witness (V = l·G or V = s·R is a point); on secp256k1 the
	// library's wrappers cannot hold the zero term, so V is built from the other term alone; both zero is not a
	// statement the API can express there.
	sZero, lZero := new(big.Int).Mod(s, q).Sign() == 0, new(big.Int).Mod(l, q).Sign() == 0
	var V *crypto.ECPoint
	var err error
	switch {
	case tag == "s256" && sZero && lZero:
		return nil
	case tag == "s256" && sZero:
		V = crypto.ScalarBaseMult(c, l)
	case tag == "s256" && lZero:
		V = R.ScalarMult(s)
	default:
		V, err = R.ScalarMult(s).Add(crypto.ScalarBaseMult(c, l))
		if err != nil {
			return nil
		}
	}
	zc := &zkCase{sys: "schnorrv/" + tag, op: "schnorrv_verify", sess: 1, stmt: []int{2, 3}, proof: []int{4, 5, 6}, witness: eInt(s) + "/" + eInt(l)}
	if modelProver {
		a := new(big.Int).Add(below(rng, new(big.Int).Sub(q, bi(1))), bi(1))
		b := new(big.Int).Add(below(rng, new(big.Int).Sub(q, bi(1))), bi(1))
		res := r.model.Call("schnorrv_prove", tag, eBytes(sess), ePoint(V), ePoint(R), eInt(s), eInt(l), eInt(a), eInt(b))
		f := strings.Fields(res)
		if len(f) != 4 || f[0] != "ok" {
			r.Note("model schnorrv_prove: %s", res)
			return nil
		}
		zc.args = []string{tag, eBytes(sess), ePoint(V), ePoint(R), f[1], f[2], f[3]}
		zc.origin = "model-prover"
		return zc
	}
	pf, err := schnorr.NewZKVProof(sess, V, R, s, l, rdr(rng))
	if err != nil {
		proverRefused(r, "schnorrv/"+tag, "s="+eInt(s)+" l="+eInt(l), err)
		return nil
	}
	zc.args = []string{tag, eBytes(sess), ePoint(V), ePoint(R), ePoint(pf.Alpha), eInt(pf.T), eInt(pf.U)}
	zc.origin = "go-prover"
	return zc
}

// --- dln ---
func dlnCase(r *Run, rng *rand.Rand, fx *keygen.LocalPartySaveData, second bool, modelProver bool) *zkCase {
	defer guardProver(r, "dln", func() string { return "fixture" })()
	h1, h2, x := fx.H1i, fx.H2i, fx.Alpha
	if second {
		h1, h2, x = fx.H2i, fx.H1i, fx.Beta
	}
	zc := &zkCase{sys: "dln", op: "dln_verify", sess: -1, stmt: []int{2, 3, 4}, proof: []int{0, 1}}
	if modelProver {
		pq := new(big.Int).Mul(fx.P, fx.Q)
		as := make([]*big.Int, dlnproof.Iterations)
		for i := range as {
			as[i] = new(big.Int).Add(below(rng, new(big.Int).Sub(pq, bi(1))), bi(1))
		}
		res := r.model.Call("dln_prove", eInt(h1), eInt(h2), eInt(x), eInt(fx.P), eInt(fx.Q), eInt(fx.NTildei), eInts(as))
		f := strings.Fields(res)
		if len(f) != 3 || f[0] != "ok" {
			r.Note("model dln_prove: %.200s", res)
			return nil
		}
		zc.args = []string{f[1], f[2], eInt(h1), eInt(h2), eInt(fx.NTildei)}
		zc.origin = "model-prover"
		return zc
	}
	pf := dlnproof.NewDLNProof(h1, h2, x, fx.P, fx.Q, fx.NTildei, rdr(rng))
	zc.args = []string{eInts(pf.Alpha[:]), eInts(pf.T[:]), eInt(h1), eInt(h2), eInt(fx.NTildei)}
	zc.origin = "go-prover"
	return zc
}

// --- mod ---
func modCase(r *Run, rng *rand.Rand, fx *keygen.LocalPartySaveData, sess []byte, modelProver bool) *zkCase {
	defer guardProver(r, "mod", func() string { return "fixture" })()
	sk := fx.PaillierSK
	zc := &zkCase{sys: "mod", op: "mod_verify", sess: 0, stmt: []int{6}, proof: []int{1, 2, 3, 4, 5}, parts: modproof.ProofModBytesParts}
	zc.wire = func(a []string) []*big.Int {
		return append(append(append([]*big.Int{dInt(a[1])}, dInts(a[2])...), dInt(a[3]), dInt(a[4])), dInts(a[5])...)
	}
	if modelProver {
		var w *big.Int
		for {
			w = below(rng, sk.N)
			if big.Jacobi(w, sk.N) == -1 {
				break
			}
		}
		res := r.model.Call("mod_prove", eBytes(sess), eInt(sk.N), eInt(sk.P), eInt(sk.Q), eInt(w))
		f := strings.Fields(res)
		if len(f) != 6 || f[0] != "ok" {
			r.Note("model mod_prove: %.200s", res)
			return nil
		}
		zc.args = []string{eBytes(sess), f[1], f[2], f[3], f[4], f[5], eInt(sk.N)}
		zc.origin = "model-prover"
		return zc
	}
	pf, err := modproof.NewProof(sess, sk.N, sk.P, sk.Q, rdr(rng))
	if err != nil {
		proverRefused(r, "mod", "fixture", err)
		return nil
	}
	zc.args = []string{eBytes(sess), eInt(pf.W), eInts(pf.X[:]), eInt(pf.A), eInt(pf.B), eInts(pf.Z[:]), eInt(sk.N)}
	zc.origin = "go-prover"
	return zc
}

// --- fac ---
func facCase(r *Run, rng *rand.Rand, tag string, prover, verifier *keygen.LocalPartySaveData, sess []byte, modelProver bool) *zkCase {
	defer guardProver(r, "fac/"+tag, func() string { return "fixture" })()
	c := curveByTag(tag)
	q := c.Params().N
	sk := prover.PaillierSK
	N0, NCap, s, t := sk.N, verifier.NTildei, verifier.H1i, verifier.H2i
	zc := &zkCase{sys: "fac", op: "fac_verify", sess: 1, stmt: []int{2, 3, 4, 5}, proof: []int{6}, parts: facproof.ProofFacBytesParts}
	zc.wire = func(a []string) []*big.Int { return dInts(a[6]) }
	if modelProver {
		q3 := new(big.Int).Mul(q, new(big.Int).Mul(q, q))
		q3s := new(big.Int).Mul(q3, new(big.Int).Sqrt(N0))
		qN := new(big.Int).Mul(q, NCap)
		fb := []*big.Int{q3s, q3s, qN, qN, new(big.Int).Mul(qN, N0), new(big.Int).Mul(new(big.Int).Mul(q3, NCap), N0), new(big.Int).Mul(q3, NCap), new(big.Int).Mul(q3, NCap)}
		coins := []*big.Int{below(rng, fb[0]), below(rng, fb[1]), below(rng, fb[2]), below(rng, fb[3]), below(rng, fb[4]), unitBelow(rng, fb[5]), below(rng, fb[6]), below(rng, fb[7])}
		zc.extreme = applyExtreme(coins, fb, []bool{false, false, false, false, false, true, false, false})
		res := r.model.Call("fac_prove", tag, eBytes(sess), eInt(N0), eInt(NCap), eInt(s), eInt(t), eInt(sk.P), eInt(sk.Q), eInts(coins))
		f := strings.Fields(res)
		if len(f) != 2 || f[0] != "ok" {
			r.Note("model fac_prove: %.200s", res)
			return nil
		}
		zc.args = []string{tag, eBytes(sess), eInt(N0), eInt(NCap), eInt(s), eInt(t), f[1]}
		zc.origin = "model-prover"
		return zc
	}
	pf, err := facproof.NewProof(sess, c, N0, NCap, s, t, sk.P, sk.Q, rdr(rng))
	if err != nil {
		proverRefused(r, "fac/"+tag, "fixture", err)
		return nil
	}
	zc.args = []string{tag, eBytes(sess), eInt(N0), eInt(NCap), eInt(s), eInt(t), eInts(facToInts(pf))}
	zc.origin = "go-prover"
	return zc
}

// --- Alice's range proof ---
func rangeCase(r *Run, rng *rand.Rand, tag string, alice, bob *keygen.LocalPartySaveData, m *big.Int, modelProver bool) *zkCase {
	defer guardProver(r, "range/"+tag, func() string { return eInt(m) })()
	c := curveByTag(tag)
	q := c.Params().N
	pk := &alice.PaillierSK.PublicKey
	zc := &zkCase{sys: "range", op: "range_verify", sess: -1, stmt: []int{1, 2, 3, 4, 5}, aux: []int{2, 3, 4}, proof: []int{6}, parts: mta.RangeProofAliceBytesParts, witness: eInt(m)}
	zc.wire = func(a []string) []*big.Int { return dInts(a[6]) }
	if modelProver {
		x := unitBelow(rng, pk.N)
		cA, _, err := pk.EncryptAndReturnRandomness(&coinReader{buf: padTo(x, pk.N.BitLen())}, m)
		if err != nil {
			return nil
		}
		q3 := new(big.Int).Mul(q, new(big.Int).Mul(q, q))
		rb := []*big.Int{q3, pk.N, new(big.Int).Mul(q3, bob.NTildei), new(big.Int).Mul(q, bob.NTildei)}
		coins := []*big.Int{below(rng, rb[0]), unitBelow(rng, rb[1]), below(rng, rb[2]), below(rng, rb[3])}
		zc.extreme = applyExtreme(coins, rb, []bool{false, true, false, false})
		res := r.model.Call("range_prove", tag, eInt(pk.N), eInt(cA), eInt(bob.NTildei), eInt(bob.H1i), eInt(bob.H2i), eInt(m), eInt(x), eInts(coins))
		f := strings.Fields(res)
		if len(f) != 2 || f[0] != "ok" {
			r.Note("model range_prove: %.200s", res)
			return nil
		}
		zc.args = []string{tag, eInt(pk.N), eInt(bob.NTildei), eInt(bob.H1i), eInt(bob.H2i), eInt(cA), f[1]}
		zc.origin = "model-prover"
		return zc
	}
	cA, pf, err := mta.AliceInit(c, pk, m, bob.NTildei, bob.H1i, bob.H2i, rdr(rng))
	if err != nil {
		proverRefused(r, "range/"+tag, eInt(m), err)
		return nil
	}
	zc.args = []string{tag, eInt(pk.N), eInt(bob.NTildei), eInt(bob.H1i), eInt(bob.H2i), eInt(cA), eInts(rangeToInts(pf))}
	zc.origin = "go-prover"
	return zc
}

func padTo(v *big.Int, bits int) []byte {
	k := (bits + 7) / 8
	b := v.Bytes()
	return append(make([]byte, k-len(b)), b...)
}

// --- Bob's proofs ---
func bobCase(r *Run, rng *rand.Rand, tag string, alice, bob *keygen.LocalPartySaveData, sess []byte, a, b *big.Int, wc bool, modelProver bool) *zkCase {
	defer guardProver(r, "bob/"+tag, func() string { return "a=" + eInt(a) + " b=" + eInt(b) })()
	c := curveByTag(tag)
	q := c.Params().N
	pk := &alice.PaillierSK.PublicKey
	cA, rpf, err := mta.AliceInit(c, pk, a, bob.NTildei, bob.H1i, bob.H2i, rdr(rng))
	if err != nil {
		return nil
	}
	name := "bob"
	if wc {
		name = "bobwc"
	}
	zc := &zkCase{sys: name, op: "bob_verify", sess: 1, stmt: []int{2, 3, 4, 5, 6, 7}, aux: []int{3, 4, 5}, proof: []int{8}, parts: mta.ProofBobBytesParts, witness: eInt(b)}
	zc.wire = func(a []string) []*big.Int { return dInts(a[8]) }
	var B *crypto.ECPoint
	if wc {
		if new(big.Int).Mod(b, q).Sign() == 0 {
			return nil
		}
		B = crypto.ScalarBaseMult(c, b)
		zc.stmt = append(zc.stmt, 9)
		zc.proof = append(zc.proof, 10)
		// on the wire Bob's proof with check is the 10 numbers followed by the coordinates of U
		zc.parts = mta.ProofBobWCBytesParts
		zc.wireTag = tag
		zc.wire = func(a []string) []*big.Int {
			u := dPoint(c, a[10])
			return append(dInts(a[8]), u.X(), u.Y())
		}
	}
	if modelProver {
		q3 := new(big.Int).Mul(q, new(big.Int).Mul(q, q))
		q5 := new(big.Int).Mul(q3, new(big.Int).Mul(q, q))
		q7 := new(big.Int).Mul(q5, new(big.Int).Mul(q, q))
		betaPrm := below(rng, q5)
		x := unitBelow(rng, pk.N)
		cBeta, _, err := pk.EncryptAndReturnRandomness(&coinReader{buf: padTo(x, pk.N.BitLen())}, betaPrm)
		if err != nil {
			return nil
		}
		cB, err := pk.HomoMult(b, cA)
		if err != nil {
			return nil
		}
		cB, _ = pk.HomoAdd(cB, cBeta)
		qNt := new(big.Int).Mul(q, alice.NTildei)
		q3Nt := new(big.Int).Mul(q3, alice.NTildei)
		bb := []*big.Int{q3, qNt, qNt, q3Nt, q3Nt, pk.N, q7}
		coins := []*big.Int{below(rng, bb[0]), below(rng, bb[1]), below(rng, bb[2]), below(rng, bb[3]), below(rng, bb[4]), unitBelow(rng, bb[5]), below(rng, bb[6])}
		zc.extreme = applyExtreme(coins, bb, []bool{false, false, false, false, false, true, false})
		Xs := "nil"
		if wc {
			Xs = ePoint(B)
		}
		res := r.model.Call("bob_prove", tag, eBytes(sess), eInt(pk.N), eInt(alice.NTildei), eInt(alice.H1i), eInt(alice.H2i), eInt(cA), eInt(cB), eInt(b), eInt(betaPrm), eInt(x), Xs, eInts(coins))
		f := strings.Fields(res)
		if len(f) != 3 || f[0] != "ok" {
			r.Note("model bob_prove: %.200s", res)
			return nil
		}
		zc.args = []string{tag, eBytes(sess), eInt(pk.N), eInt(alice.NTildei), eInt(alice.H1i), eInt(alice.H2i), eInt(cA), eInt(cB), f[1], Xs, f[2]}
		zc.origin = "model-prover"
		return zc
	}
	if wc {
		_, cB, _, pf, err := mta.BobMidWC(sess, c, pk, rpf, b, cA, alice.NTildei, alice.H1i, alice.H2i, bob.NTildei, bob.H1i, bob.H2i, B, rdr(rng))
		if err != nil {
			proverRefused(r, "bobwc/"+tag, "a="+eInt(a)+" b="+eInt(b), err)
			return nil
		}
		zc.args = []string{tag, eBytes(sess), eInt(pk.N), eInt(alice.NTildei), eInt(alice.H1i), eInt(alice.H2i), eInt(cA), eInt(cB), eInts(bobToInts(pf.ProofBob)), ePoint(B), ePoint(pf.U)}
	} else {
		_, cB, _, pf, err := mta.BobMid(sess, c, pk, rpf, b, cA, alice.NTildei, alice.H1i, alice.H2i, bob.NTildei, bob.H1i, bob.H2i, rdr(rng))
		if err != nil {
			proverRefused(r, "bob/"+tag, "a="+eInt(a)+" b="+eInt(b), err)
			return nil
		}
		zc.args = []string{tag, eBytes(sess), eInt(pk.N), eInt(alice.NTildei), eInt(alice.H1i), eInt(alice.H2i), eInt(cA), eInt(cB), eInts(bobToInts(pf)), "nil", "nil"}
	}
	zc.origin = "go-prover"
	return zc
}

var _ = paillier.ProofIters
var _ = fmt.Sprint

// --- Paillier key-correctness proof (crypto/paillier Proof): statement (N, the prover's party key k, the group key) ---
func paiCase(r *Run, rng *rand.Rand, fx *keygen.LocalPartySaveData) *zkCase {
	defer guardProver(r, "paillier-key", func() string { return "fixture" })()
	sk := fx.PaillierSK
	k := fx.ShareID
	pub := fx.ECDSAPub
	pf := sk.Proof(k, pub)
	zc := &zkCase{sys: "paillier-key", op: "pai_proof_verify", sess: -1, stmt: []int{1, 2, 3}, proof: []int{0}, witness: "phi(N)"}
	zc.args = []string{eInts(pf[:]), eInt(sk.N), eInt(k), ePoint(pub)}
	zc.origin = "go-prover"
	return zc
}

// honestCases builds a stratified set of accepted proofs of every system
func honestCases(r *Run, rng *rand.Rand, thorough bool) []*zkCase {
	fx := loadFixtures()
	var out []*zkCase
	add := func(c *zkCase) {
		if c != nil {
			out = append(out, c)
		}
	}
	nfx := 2
	if thorough {
		nfx = len(fx)
	}
	off := int(r.Seed) % len(fx)
	F := func(i int) *keygen.LocalPartySaveData { return &fx[(i+off)%len(fx)] }
	for _, tag := range curveTags {
		q := curveByTag(tag).Params().N
		ws := witnessGrid(rng, q)
		ss := sessions(rng)
		for i, x := range ws {
			for j, s := range ss {
				if !thorough && (i+j)%3 != 0 {
					continue
				}
				add(schnorrCase(r, rng, tag, s, x, (i+j)%2 == 1))
				add(schnorrVCase(r, rng, tag, s, x, ws[(i+1)%len(ws)], (i+j)%2 == 0))
			}
		}
		// the zero witnesses of Schnorr-V, by both provers (V = l·G and V = s·R)
		for _, mp := range []bool{false, true} {
			add(schnorrVCase(r, rng, tag, ss[0], bi(0), ws[3], mp))
			add(schnorrVCase(r, rng, tag, ss[len(ss)-1], ws[3], bi(0), mp))
			add(schnorrVCase(r, rng, tag, ss[0], bi(0), bi(1), mp))
		}
	}
	ss := sessions(rng)
	for i := 0; i < nfx; i++ {
		add(paiCase(r, rng, F(i)))
		add(dlnCase(r, rng, F(i), false, false))
		add(dlnCase(r, rng, F(i), true, i%2 == 0))
		add(modCase(r, rng, F(i), ss[i%len(ss)], false))
		if thorough || i == 0 {
			add(modCase(r, rng, F(i), ss[(i+1)%len(ss)], true))
		}
		for j := 0; j < nfx; j++ {
			if i == j && !thorough {
				continue
			}
			for ti, tag := range curveTags {
				add(facCase(r, rng, tag, F(i), F(j), ss[(i+j)%len(ss)], (i+j+ti)%2 == 0))
				q := curveByTag(tag).Params().N
				ws := witnessGrid(rng, q)
				for k, m := range ws {
					if !thorough && k%2 == 1 {
						continue
					}
					// the MtA proofs are used on secp256k1 by the protocols but are generic in the curve order
					add(rangeCase(r, rng, tag, F(i), F(j), m, k%2 == 1))
					if ti > 0 {
						add(rangeCase(r, rng, tag, F(i), F(j), m, false))
						if !thorough && k%4 != 0 {
							continue
						}
					}
					add(bobCase(r, rng, tag, F(i), F(j), ss[k%len(ss)], ws[(k+1)%len(ws)], m, false, k%4 == 2))
					add(bobCase(r, rng, tag, F(i), F(j), ss[(k+1)%len(ss)], ws[(k+2)%len(ws)], m, true, k%4 == 0))
				}
			}
		}
	}
	// model-made proofs with one coin at the end of its range (first fixture pair): every such proof that the model's
	// verifier accepts (i.e. the coins are good in the sense of the completeness theorems) must be accepted by Go's
	if nfx >= 2 {
		qS := curveByTag("s256").Params().N
		wsS := witnessGrid(rng, qS)
		tryExtreme := func(mk func() *zkCase, coinsN int) {
			for k := 0; k < coinsN; k++ {
				for _, low := range []bool{false, true} {
					if low && !thorough {
						continue
					}
					extremeCoin, extremeCoinLow = k, low
					c := mk()
					extremeCoin, extremeCoinLow = -1, false
					if c == nil || c.extreme == "" {
						continue
					}
					if v := r.model.Call(c.op, c.args...); v != "accept" {
						r.Note("%s %s: the model's verifier answers %q (a coin outside the good set of the completeness theorem)", c.sys, c.extreme, v)
						continue
					}
					c.origin = "model-prover-" + c.extreme
					add(c)
				}
			}
		}
		tryExtreme(func() *zkCase { return rangeCase(r, rng, "s256", F(0), F(1), wsS[3%len(wsS)], true) }, 4)
		tryExtreme(func() *zkCase {
			return bobCase(r, rng, "s256", F(0), F(1), ss[1], wsS[1], wsS[2%len(wsS)], false, true)
		}, 7)
		tryExtreme(func() *zkCase { return bobCase(r, rng, "s256", F(1), F(0), ss[2], wsS[2%len(wsS)], wsS[1], true, true) }, 7)
		tryExtreme(func() *zkCase { return facCase(r, rng, "s256", F(0), F(1), ss[1], true) }, 8)
	}
	return out
}
