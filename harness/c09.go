package main

import (
	"bytes"
	"fmt"
	"math/big"
	"math/rand"
	"os"
	"os/exec"
	"runtime"
	"strings"
	"sync"
	"sync/atomic"
	"time"

	ecdsakeygen "github.com/bnb-chain/tss-lib/v2/ecdsa/keygen"
	"github.com/bnb-chain/tss-lib/v2/tss"
)

func init() { props["C09"] = runC09 }

// concurrentRun drives a net with every Start and every delivery in its own goroutine (seeded yields),
// plus goroutines polling WaitingFor and, optionally, goroutines feeding messages that fail validation.
func concurrentRun(net *Net, seed int64, garbage bool) (ends []int, errs []string) {
	var wg sync.WaitGroup
	var inflight int64
	var mu sync.Mutex
	stop := make(chan struct{})
	yield := func(r *rand.Rand) {
		switch r.Intn(4) {
		case 0:
			runtime.Gosched()
		case 1:
			time.Sleep(time.Duration(r.Intn(200)) * time.Microsecond)
		}
	}
	deliver := func(to int, m tss.Message, s int64) {
		defer wg.Done()
		defer atomic.AddInt64(&inflight, -1)
		r := rand.New(rand.NewSource(s))
		yield(r)
		bz, _, err := m.WireBytes()
		if err != nil {
			return
		}
		if _, e := net.Nodes[to].Party.UpdateFromBytes(bz, m.GetFrom(), m.IsBroadcast()); e != nil {
			mu.Lock()
			errs = append(errs, fmt.Sprintf("%s: %v", net.Nodes[to].Name, e))
			mu.Unlock()
		}
	}
	// router: one goroutine per node drains its out channel
	var rwg sync.WaitGroup
	var ctr int64
	for i := range net.Nodes {
		rwg.Add(1)
		go func(i int) {
			defer rwg.Done()
			for {
				select {
				case m := <-net.Nodes[i].Out:
					for _, to := range net.Route(net, i, m) {
						atomic.AddInt64(&inflight, 1)
						wg.Add(1)
						go deliver(to, m, seed+atomic.AddInt64(&ctr, 1))
					}
				case <-stop:
					return
				}
			}
		}(i)
	}
	// pollers: several per party; each reads every entry of the answer it got, keeps the answer, asks again and checks
	// that the earlier answer was not changed under its hands (the answer is the caller's own)
	var aliased int64
	for i := range net.Nodes {
		for k := 0; k < 3; k++ {
			rwg.Add(1)
			go func(i, k int) {
				defer rwg.Done()
				r := rand.New(rand.NewSource(seed + int64(1000+10*i+k)))
				for {
					select {
					case <-stop:
						return
					default:
						w := net.Nodes[i].Party.WaitingFor()
						sum := 0
						snap := make([]int, len(w))
						for j, p := range w {
							snap[j] = p.Index
							sum += p.Index
						}
						yield(r)
						_ = net.Nodes[i].Party.WaitingFor()
						for j, p := range w {
							if p.Index != snap[j] {
								atomic.AddInt64(&aliased, 1)
							}
						}
						_ = sum
						yield(r)
					}
				}
			}(i, k)
		}
	}
	if garbage {
		for i := range net.Nodes {
			rwg.Add(1)
			go func(i int) {
				defer rwg.Done()
				r := rand.New(rand.NewSource(seed + int64(2000+i)))
				for k := 0; k < 30; k++ {
					select {
					case <-stop:
						return
					default:
					}
					// bytes that do not parse, and a well-formed wrapper from a sender index out of range
					_, _ = net.Nodes[i].Party.UpdateFromBytes(randBytes(r, 1+r.Intn(40)), net.Nodes[(i+1)%len(net.Nodes)].ID, r.Intn(2) == 0)
					yield(r)
				}
			}(i)
		}
	}
	// starts, concurrently
	var swg sync.WaitGroup
	for i := range net.Nodes {
		swg.Add(1)
		go func(i int) {
			defer swg.Done()
			r := rand.New(rand.NewSource(seed + int64(3000+i)))
			yield(r)
			if err := net.Nodes[i].Party.Start(); err != nil {
				mu.Lock()
				errs = append(errs, fmt.Sprintf("%s start: %v", net.Nodes[i].Name, err))
				mu.Unlock()
			}
		}(i)
	}
	swg.Wait()
	// quiescence: nothing in flight and nothing buffered, stable for a while
	deadline := time.Now().Add(60 * time.Second)
	for time.Now().Before(deadline) {
		time.Sleep(20 * time.Millisecond)
		if atomic.LoadInt64(&inflight) == 0 {
			empty := true
			for _, nd := range net.Nodes {
				if len(nd.Out) > 0 {
					empty = false
				}
			}
			if empty {
				time.Sleep(30 * time.Millisecond)
				if atomic.LoadInt64(&inflight) == 0 {
					break
				}
			}
		}
	}
	wg.Wait()
	close(stop)
	rwg.Wait()
	for _, nd := range net.Nodes {
		nd.Ends = append(nd.Ends, nd.drainEnd()...)
		ends = append(ends, len(nd.Ends))
	}
	if n := atomic.LoadInt64(&aliased); n > 0 {
		errs = append(errs, fmt.Sprintf("WaitingFor: an answer held by a caller was changed by a later call (%d times)", n))
	}
	return
}

// child entry (race-instrumented binary): runs the protocols concurrently and prints one line per run
func c09Child(seedStr, thoroughStr string) {
	var seed int64
	fmt.Sscan(seedStr, &seed)
	thorough := thoroughStr == "thorough"
	rng := rand.New(rand.NewSource(seed))
	q := tss.Edwards().Params().N
	edKs, err := genEdKeys(rng, 3, 1, 0, Strategy{Name: "fifo", Pick: pickFIFO})
	if err != nil {
		fmt.Println("FAIL eddsa-keygen-for-setup", err)
		os.Exit(1)
	}
	eks := fixtureEcKeys()
	type pr struct {
		name  string
		build func(s int64) *Net
	}
	prs := []pr{
		{"eddsa-keygen", func(s int64) *Net { return eddsaKeygenNet(rand.New(rand.NewSource(s)), 3, 1, partyKeys(rng, 3, 0, q)) }},
		{"eddsa-signing", func(s int64) *Net {
			return eddsaSigningNet(rand.New(rand.NewSource(s)), edKs.keys, edKs.pids, 1, big.NewInt(77), -1)
		}},
		{"eddsa-resharing", func(s int64) *Net {
			return eddsaResharingNet(rand.New(rand.NewSource(s)), cloneEdKeys(edKs.keys[:2]), edKs.pids[:2], 1, makePIDs([]*big.Int{big.NewInt(7001), big.NewInt(7002), big.NewInt(7003)}, "N"), 1)
		}},
		{"ecdsa-signing", func(s int64) *Net {
			return ecdsaSigningNet(rand.New(rand.NewSource(s)), eks.keys[:3], eks.pids[:3], eks.t, big.NewInt(4242), -1, nil)
		}},
	}
	if thorough {
		prs = append(prs, pr{"ecdsa-keygen", func(s int64) *Net {
			return ecdsaKeygenNet(rand.New(rand.NewSource(s)), 3, 1, partyKeys(rng, 3, 0, tss.S256().Params().N), 0)
		}})
	}
	// deliveries released at the same instant as the recipient's Start()
	gates := 120
	if thorough {
		gates = 600
	}
	gprs := []pr{
		{"eddsa-keygen-2", func(s int64) *Net { return eddsaKeygenNet(rand.New(rand.NewSource(s)), 2, 1, partyKeys(rng, 2, 0, q)) }},
		{"eddsa-keygen-3", prs[0].build},
		{"eddsa-signing", prs[1].build},
		{"eddsa-resharing", prs[2].build},
	}
	for gi, p := range gprs {
		bad := 0
		first := ""
		n := gates
		if gi > 0 {
			n = gates / 4
		}
		for k := 0; k < n; k++ {
			net := p.build(seed*100000 + int64(k))
			victim := k % len(net.Nodes)
			if p.name == "eddsa-resharing" {
				victim = len(net.Nodes) - 1 - k%3 // a new member: the old committee's first messages can all precede its Start
			}
			ok, detail := gatedStart(net, victim, seed*31+int64(k), k%10 == 0)
			if !ok {
				bad++
				if first == "" {
					first = fmt.Sprintf("iteration=%d victim=%d %s", k, victim, strings.ReplaceAll(detail, " ", ";"))
				}
			}
		}
		status := "PASS"
		if bad > 0 {
			status = "FAIL"
		}
		fmt.Printf("%s start-vs-delivery/%s iterations=%d stuck=%d %s\n", status, p.name, n, bad, first)
	}
	// Start() against deliveries that do not parse, in all six protocols: the parties are only started (nothing
	// genuine is delivered) while several goroutines per party hand it unparsable bytes; the error path of every
	// UpdateFromBytes reads the party's round and must do so under its lock
	sprs := append([]pr{}, prs...)
	sprs = append(sprs, pr{"ecdsa-resharing", func(s int64) *Net {
		keys := make([]ecdsakeygen.LocalPartySaveData, 3)
		for i := range keys {
			keys[i] = eks.keys[i]
			keys[i].Xi = new(big.Int).Set(eks.keys[i].Xi)
		}
		return ecdsaResharingNet(rand.New(rand.NewSource(s)), keys, eks.pids[:3], eks.t, makePIDs([]*big.Int{big.NewInt(7101), big.NewInt(7102), big.NewInt(7103)}, "N"), 1, false, 0)
	}})
	if !thorough {
		sprs = append(sprs, pr{"ecdsa-keygen", func(s int64) *Net {
			return ecdsaKeygenNet(rand.New(rand.NewSource(s)), 2, 1, partyKeys(rng, 2, 0, tss.S256().Params().N), 0)
		}})
	}
	for _, p := range sprs {
		n := 3
		if thorough {
			n = 10
		}
		bad := 0
		for k := 0; k < n; k++ {
			if !startVsGarbage(p.build(seed*3000+int64(k)), seed*17+int64(k)) {
				bad++
			}
		}
		status := "PASS"
		if bad > 0 {
			status = "FAIL"
		}
		fmt.Printf("%s start-vs-garbage/%s iterations=%d failed=%d\n", status, p.name, n, bad)
	}
	reps := 6
	if thorough {
		reps = 24
	}
	for _, p := range prs {
		n := reps
		if strings.HasPrefix(p.name, "ecdsa") {
			n = reps / 3
		}
		for k := 0; k < n; k++ {
			net := p.build(seed*1000 + int64(k))
			garbage := k%2 == 1
			ends, errs := concurrentRun(net, seed*7919+int64(k), garbage)
			ok := len(errs) == 0 || garbage && !strings.Contains(strings.Join(errs, " "), "WaitingFor: an answer")
			for _, e := range ends {
				if e != 1 {
					ok = false
				}
			}
			status := "PASS"
			if !ok {
				status = "FAIL"
			}
			fmt.Printf("%s %s rep=%d garbage=%v ends=%v errs=%d\n", status, p.name, k, garbage, ends, len(errs))
		}
	}
}

// gatedStart: a delivery to a party that has not been started is released at the same instant as its Start()
// (spin gate, seeded skew); afterwards the run is finished sequentially. Whatever the interleaving, the party must end
// up where a sequential delivery puts it and the run must complete. `victim` is started concurrently with the
// delivery of the first message each other party sent it.
func gatedStart(net *Net, victim int, seed int64, finish bool) (ok bool, detail string) {
	r := rand.New(rand.NewSource(seed))
	for i := range net.Nodes {
		if i != victim {
			net.Start(i)
		}
	}
	// deliveries addressed to the victim that exist before it starts
	var early []*Delivery
	var rest []*Delivery
	for _, d := range net.Pending {
		if d.To == victim {
			early = append(early, d)
		} else {
			rest = append(rest, d)
		}
	}
	if len(early) == 0 {
		return true, "nothing to deliver early"
	}
	net.Pending = rest
	var gate int32
	var wg sync.WaitGroup
	spin := func(skew int) {
		for atomic.LoadInt32(&gate) == 0 {
		}
		for k := 0; k < skew; k++ {
			_ = k
		}
	}
	nd := net.Nodes[victim]
	wg.Add(1)
	go func(skew int) {
		defer wg.Done()
		spin(skew)
		if err := nd.Party.Start(); err != nil {
			nd.Err = err
		}
	}(r.Intn(400))
	for _, d := range early {
		wg.Add(1)
		go func(d *Delivery, skew int) {
			defer wg.Done()
			spin(skew)
			_, _ = nd.Party.UpdateFromBytes(d.Wire, d.Msg.GetFrom(), d.Bcast)
		}(d, r.Intn(400))
	}
	atomic.StoreInt32(&gate, 1)
	wg.Wait()
	nd.Started = true
	net.collect(victim)
	// a settled party that has not finished is waiting for somebody (the engine's fixpoint: when nothing is awaited the
	// round advances); "waiting for nobody, not finished" is a lost wake-up. Every tenth run is also finished
	// sequentially and must complete.
	stuck := nd.Err == nil && len(nd.Ends) == 0 && len(waitingIdx(nd.Party)) == 0
	ok = !stuck && len(net.Panics) == 0
	if ok && finish {
		net.Run(r, Strategy{Name: "fifo", Pick: pickFIFO}, 200000)
		ok = len(net.Panics) == 0 && len(net.Pending) == 0
		for _, x := range net.Nodes {
			if len(x.Ends) != 1 || x.Err != nil {
				ok = false
			}
		}
	}
	var st []string
	for _, x := range net.Nodes {
		st = append(st, fmt.Sprintf("%s:%s,ends=%d,waiting=%v", x.Name, roundOf(x.Party), len(x.Ends), waitingIdx(x.Party)))
	}
	return ok, strings.Join(st, " ")
}

func runC09(r *Run, rng *rand.Rand, thorough bool) {
	r.Rule = "the harness is rebuilt with the Go race detector; every Start and every delivery of whole protocol runs is made from its own goroutine with seeded yields and sleeps, while three goroutines per party poll WaitingFor (reading every entry of the answer, keeping it and checking that a later call does not change it) and (every second run) feed unparsable bytes; plus gated runs in which the deliveries a party received before its Start() are released at the same instant as that Start() (spin gate, seeded skew, hundreds of fresh parties), after which the run must complete like the sequential one; plus, in all six protocols, Start() of every party against three goroutines per party handing it unparsable bytes (nothing genuine delivered); non-trivial = one completed concurrent run; direct assertions: no DATA RACE report, every party ends exactly once"
	self, _ := os.Executable()
	raceBin := os.Getenv("VH_RACE")
	if raceBin == "" {
		raceBin = self + "-race"
	}
	if _, err := os.Stat(raceBin); err != nil {
		r.fail(Failure{Kind: "diff", Key: "race-binary-missing", Op: "go build -race", Detail: "the race-instrumented harness was not built: " + raceBin})
		return
	}
	tier := "quick"
	if thorough {
		tier = "thorough"
	}
	seeds := 1
	if thorough {
		seeds = 2
	}
	for s := 0; s < seeds; s++ {
		cmd := exec.Command(raceBin, "child", "C09", fmt.Sprint(r.Seed+int64(s)), tier)
		cmd.Env = append(os.Environ(), "GORACE=halt_on_error=0 exitcode=0")
		var out, errb bytes.Buffer
		cmd.Stdout, cmd.Stderr = &out, &errb
		err := cmd.Run()
		lines := strings.Split(strings.TrimSpace(out.String()), "\n")
		for _, l := range lines {
			f := strings.Fields(l)
			if len(f) < 2 {
				continue
			}
			r.Evals++
			r.Dist["concurrent-run/"+f[1]]++
			if f[0] == "PASS" {
				r.Distinct++
				r.Traces++
			}
			r.Assert(f[0] == "PASS", "concurrent/"+f[1], "concurrent-run-completes-each-result-once", func() string { return l })
			if len(r.Samples) < 6 {
				r.Samples = append(r.Samples, l)
			}
		}
		races := strings.Count(errb.String(), "WARNING: DATA RACE")
		r.Dist["data-race-reports"] += races
		if races > 0 {
			// identify the racing access by its first tss-lib frame
			rep := errb.String()
			site := "unknown"
			for _, ln := range strings.Split(rep, "\n") {
				if strings.Contains(ln, "/tss-lib/") || strings.Contains(ln, "/repo/") {
					site = strings.TrimSpace(ln)
					break
				}
			}
			if i := strings.Index(rep, "WARNING: DATA RACE"); i >= 0 {
				rep = rep[i:]
			}
			if len(rep) > 3000 {
				rep = rep[:3000]
			}
			r.Assert(false, "data-race/"+site[:min(len(site), 80)], "no-unsynchronised-concurrent-access", func() string { return rep })
		} else {
			r.Assert(true, "", "no-unsynchronised-concurrent-access", nil)
		}
		if err != nil && races == 0 {
			r.Assert(false, "concurrent/child-failed", "concurrent-harness-runs", func() string { return err.Error() + " " + errb.String()[:min(len(errb.String()), 1500)] })
		}
	}
}

// startVsGarbage: every party is started from its own goroutine while three other goroutines per party hand it bytes that
// do not parse (each such call must come back with an error, never crash); nothing genuine is delivered
func startVsGarbage(net *Net, seed int64) bool {
	yield := func(r *rand.Rand) {
		for k := r.Intn(4); k > 0; k-- {
			runtime.Gosched()
		}
	}
	var wg sync.WaitGroup
	stop := make(chan struct{})
	var crashed int64
	for i := range net.Nodes {
		go func(i int) { // drain the out channel so that Start() never blocks
			for {
				select {
				case <-net.Nodes[i].Out:
				case <-stop:
					return
				}
			}
		}(i)
		for k := 0; k < 3; k++ {
			wg.Add(1)
			go func(i, k int) {
				defer wg.Done()
				defer func() {
					if e := recover(); e != nil {
						atomic.AddInt64(&crashed, 1)
					}
				}()
				r := rand.New(rand.NewSource(seed + int64(100*i+k)))
				for c := 0; c < 40; c++ {
					if _, err := net.Nodes[i].Party.UpdateFromBytes(randBytes(r, 1+r.Intn(40)), net.Nodes[(i+1)%len(net.Nodes)].ID, r.Intn(2) == 0); err == nil {
						atomic.AddInt64(&crashed, 1)
					}
					yield(r)
				}
			}(i, k)
		}
		wg.Add(1)
		go func(i int) {
			defer wg.Done()
			defer func() {
				if e := recover(); e != nil {
					atomic.AddInt64(&crashed, 1)
				}
			}()
			r := rand.New(rand.NewSource(seed + int64(5000+i)))
			yield(r)
			_ = net.Nodes[i].Party.Start()
		}(i)
	}
	wg.Wait()
	close(stop)
	return atomic.LoadInt64(&crashed) == 0
}
