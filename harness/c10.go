package main

import (
	"fmt"
	"math/rand"
	"strings"
)

func init() { props["C10"] = runC10 }

func runC10(r *Run, rng *rand.Rand, thorough bool) {
	r.Rule = "cross-verification: proofs made by the Go provers (seeded reader) and by the Lean model's provers (harness coins) are judged by BOTH verifiers; non-trivial = distinct verify op on an honest proof; direct assertions: the Go verifier accepts every honest proof, every response of a Go-made range / Bob / no-small-factor proof is as long as the mask that hides the witness in it, also after Bytes()/FromBytes, for witnesses {1, q-1, leading-zero, random, 0}, every vendored parameter pair, sessions {empty, 1 byte, 32 bytes, 1 kB}"
	cases := honestCases(r, rng, thorough)
	for _, c := range cases {
		g, _, _ := r.Do(c.sys+"/"+c.origin, true, c.op, c.args...)
		r.Assert(g == "accept", c.sys+"/honest-"+c.origin, "honest-proof-accepted", func() string { return c.sys + " witness=" + c.witness + " -> " + g })
		r.Traces++
		// Go-made proofs: every response is as long as the mask that hides the witness in it
		if c.origin == "go-prover" && len(c.proof) > 0 && argKind(c.args[c.proof[0]]) == "list" {
			qb := 256
			if c.args[0] == "ed" {
				qb = 253
			}
			if d := maskDeficit(c.sys, dInts(c.args[c.proof[0]]), qb); d != "" || c.sys == "range" || c.sys == "bob" || c.sys == "bobwc" || c.sys == "fac" {
				r.Assert(d == "", c.sys+"/response-mask", "responses-are-masked-over-their-full-range", func() string { return c.sys + ": " + d })
			}
		}
		if c.parts > 0 {
			parts := c.wire(c.args)
			wargs := []string{eInts(parts), itoa(c.parts)}
			if c.wireTag != "" {
				wargs = append(wargs, c.wireTag)
			}
			gw, _, _ := r.Do(c.sys+"/wire", true, "wire_roundtrip", wargs...)
			// A component that is exactly zero has an empty encoding, which every …FromBytes refuses (model: the wire
			// round trip succeeds iff no component is zero; Go and model are compared on it by the op above). The provers
			// draw such a value with negligible probability only (a mask of thousands of bits being 0); the model-made
			// proofs with a coin forced to the low end of its range can contain one: that is outside what the property
			// quantifies over (witnesses, parameters, sessions) and is not asserted.
			zeroComponent := false
			for _, v := range parts {
				zeroComponent = zeroComponent || v.Sign() == 0
			}
			if zeroComponent && strings.HasPrefix(c.origin, "model-prover") {
				r.Dist[c.sys+"/wire-zero-component-from-forced-coin"]++
				continue
			}
			r.Assert(gw == "ok "+eInts(parts), c.sys+"/wire-roundtrip", "proof-survives-wire-encoding", func() string {
				zero := []int{}
				for k, v := range parts {
					if v.Sign() == 0 {
						zero = append(zero, k)
					}
				}
				return fmt.Sprintf("%s (%s, witness %s, %s) zero components at %v -> %s", c.sys, c.origin, c.witness, c.extreme, zero, gw[:min(len(gw), 80)])
			})
		}
	}
	// dln wire form: builder secrets → UnmarshalDLNProof
	for _, c := range cases {
		if c.sys != "dln" {
			continue
		}
		al, t := dInts(c.args[0]), dInts(c.args[1])
		secrets := append(append(append([]*bigInt{bi(int64(len(al)))}, al...), bi(int64(len(t)))), t...)
		g, _, _ := r.Do("dln/unmarshal", true, "dln_unmarshal", eInts(secrets))
		r.Assert(g == "ok "+c.args[0]+" "+c.args[1], "dln/wire-roundtrip", "proof-survives-wire-encoding", nil)
	}
	r.Note("honest cases: %d", len(cases))
}
