package main

import (
	"encoding/hex"
	"math/big"
	"strings"
)

// Text encoding of op arguments and results shared with TssVerif/Core/Wire.lean.

func eBytes(b []byte) string {
	if len(b) == 0 {
		return "-"
	}
	return hex.EncodeToString(b)
}

func eInt(z *big.Int) string {
	if z == nil {
		return "nil"
	}
	s := eBytes(z.Bytes())
	if z.Sign() < 0 {
		return "n" + s
	}
	return s
}

func eInts(zs []*big.Int) string {
	if len(zs) == 0 {
		return "_"
	}
	parts := make([]string, len(zs))
	for i, z := range zs {
		parts[i] = eInt(z)
	}
	return strings.Join(parts, ",")
}

func eBytesList(bs [][]byte) string {
	if len(bs) == 0 {
		return "_"
	}
	parts := make([]string, len(bs))
	for i, b := range bs {
		parts[i] = eBytes(b)
	}
	return strings.Join(parts, ",")
}

func eIntsList(zss [][]*big.Int) string {
	if len(zss) == 0 {
		return "!"
	}
	parts := make([]string, len(zss))
	for i, zs := range zss {
		parts[i] = eInts(zs)
	}
	return strings.Join(parts, "|")
}

func eBool(b bool) string {
	if b {
		return "true"
	}
	return "false"
}

func dInt(s string) *big.Int {
	neg := strings.HasPrefix(s, "n")
	if neg {
		s = s[1:]
	}
	z := new(big.Int)
	if s != "-" {
		b, err := hex.DecodeString(s)
		if err != nil {
			return nil
		}
		z.SetBytes(b)
	}
	if neg {
		z.Neg(z)
	}
	return z
}

func dInts(s string) []*big.Int {
	if s == "_" {
		return []*big.Int{}
	}
	fs := strings.Split(s, ",")
	out := make([]*big.Int, len(fs))
	for i, f := range fs {
		out[i] = dInt(f)
	}
	return out
}

func dBytes(s string) []byte {
	if s == "-" {
		return []byte{}
	}
	b, _ := hex.DecodeString(s)
	return b
}

func verdictStr(ok bool) string {
	if ok {
		return "accept"
	}
	return "reject"
}
