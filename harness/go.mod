module vh

go 1.16

require (
	github.com/bnb-chain/tss-lib/v2 v2.0.0
	github.com/btcsuite/btcd v0.23.4
	github.com/btcsuite/btcd/btcec/v2 v2.3.2
	github.com/btcsuite/btcd/btcutil v1.1.0
	google.golang.org/protobuf v1.31.0
)

replace github.com/bnb-chain/tss-lib/v2 => /repo

replace github.com/agl/ed25519 => github.com/binance-chain/edwards25519 v0.0.0-20200305024217-f36fc4b53d43
