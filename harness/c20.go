package main

import (
	"crypto/ecdsa"
	"encoding/json"
	"fmt"
	"math/big"
	"math/rand"

	"github.com/bnb-chain/tss-lib/v2/crypto"
	"github.com/bnb-chain/tss-lib/v2/crypto/ckd"
	ecdsakeygen "github.com/bnb-chain/tss-lib/v2/ecdsa/keygen"
	ecdsasigning "github.com/bnb-chain/tss-lib/v2/ecdsa/signing"
	eddsakeygen "github.com/bnb-chain/tss-lib/v2/eddsa/keygen"
	"github.com/bnb-chain/tss-lib/v2/tss"
)

func init() { props["C20"] = runC20 }

func snapEc(keys []ecdsakeygen.LocalPartySaveData) []string {
	out := make([]string, len(keys))
	for i := range keys {
		b, _ := json.Marshal(&keys[i])
		out[i] = string(b)
	}
	return out
}

func snapEd(keys []eddsakeygen.LocalPartySaveData) []string {
	out := make([]string, len(keys))
	for i := range keys {
		b, _ := json.Marshal(&keys[i])
		out[i] = string(b)
	}
	return out
}

func sameSnap(a, b []string) int {
	for i := range a {
		if a[i] != b[i] {
			return i
		}
	}
	return -1
}

// silence node v: its outgoing messages are dropped (the session cannot complete)
func silence(v int) func(from int, m tss.Message) []tss.Message {
	return func(from int, m tss.Message) []tss.Message {
		if from == v {
			return nil
		}
		return []tss.Message{m}
	}
}

func runC20(r *Run, rng *rand.Rand, thorough bool) {
	// a crash of the library on its own stored key data anywhere below ends the run, but what was observed up to
	// then (e.g. the modified key data that causes it) is still reported
	defer func() {
		if e := recover(); e != nil {
			r.Assert(false, "history/crash", "stored-key-data-keeps-working", func() string { return fmt.Sprintf("a later operation on the same in-memory key data crashed: %v", e) })
		}
	}()
	r.Rule = "histories of k operations drawn from {serialise+reload through encoding/json, sign with a subset (any order), sign with a derivation offset, aborted signing (a peer silenced, a peer's message altered)} on one key per curve; after EVERY operation the stored key data is compared with a deep snapshot (canonical JSON) taken before it; the R component of every completed session is compared with every other, including two sessions on the same message with the same signers; non-trivial = one operation; direct assertions: reload is lossless, reloaded keys sign with valid results, stored key data never modified, no nonce reuse"
	k := 4
	if thorough {
		k = 8
	}
	histories := 2
	if thorough {
		histories = 5
	}
	S := tss.S256()
	q := S.Params().N
	for h := 0; h < histories; h++ {
		// ---- ECDSA ----
		eks := fixtureEcKeys()
		work := &ecKeySet{n: eks.n, t: eks.t, pids: eks.pids, keys: append([]ecdsakeygen.LocalPartySaveData{}, eks.keys...)}
		var nonces []string
		var ops []string
		for step := 0; step < k; step++ {
			before := snapEc(work.keys)
			op := []string{"reload", "sign", "sign-offset", "abort-silent", "abort-tamper", "sign"}[rng.Intn(6)]
			ops = append(ops, op)
			r.Evals++
			r.Distinct++
			r.Dist["ecdsa-history-op/"+op]++
			subs := combos(work.n, work.t+1+rng.Intn(2))
			sub := subs[rng.Intn(len(subs))]
			m := new(big.Int).Mod(randInt(rng, 256), q)
			if step%3 == 2 && len(nonces) > 0 {
				m = big.NewInt(424242) // the same message again: nonces must still differ
			}
			skip := func() (skip bool) {
				// a crash inside a session (e.g. the library refusing its own stored key data) ends this operation only
				defer func() {
					if e := recover(); e != nil {
						r.Assert(false, "ecdsa-history/session-crash/"+op, "stored-key-data-keeps-working", func() string { return fmt.Sprintf("history %v: %v", ops, e) })
					}
				}()
				switch op {
				case "reload":
					re := make([]ecdsakeygen.LocalPartySaveData, len(work.keys))
					ok := true
					for i := range work.keys {
						var d ecdsakeygen.LocalPartySaveData
						if err := json.Unmarshal([]byte(before[i]), &d); err != nil {
							ok = false
						}
						re[i] = d
					}
					after := snapEc(re)
					r.Assert(ok && sameSnap(before, after) < 0, "ecdsa/reload", "json-roundtrip-lossless", func() string { return fmt.Sprint("party ", sameSnap(before, after)) })
					work.keys = re
					return true
				case "sign":
					net, out := runEcdsaSigning(rng, work, sub, m, -1, nil, Strategy{Name: "random", Pick: pickRandom}, rng.Perm(len(sub)))
					checkEcdsaSignature(r, "ecdsa-history/sign", net, out, eks.keys[0].ECDSAPub, m, -1, nil)
					if len(out.sigs) > 0 {
						nonces = append(nonces, eBytes(out.sigs[0].R))
					}
				case "sign-offset":
					il, child, err := ckd.DeriveChildKeyFromHierarchy([]uint32{uint32(rng.Int31n(1000))}, extKey(eks.keys[0].ECDSAPub, 0, randBytes(rng, 32)), q, S)
					if err != nil {
						return true
					}
					cp := &ecKeySet{n: work.n, t: work.t, pids: work.pids}
					for _, kk := range work.keys {
						c := kk
						c.BigXj = append([]*crypto.ECPoint{}, kk.BigXj...)
						cp.keys = append(cp.keys, c)
					}
					cpub := ecdsa.PublicKey{Curve: S, X: child.X, Y: child.Y}
					if err := ecdsasigning.UpdatePublicKeyAndAdjustBigXj(il, cp.keys, &cpub, S); err != nil {
						return true
					}
					net, out := runEcdsaSigning(rng, cp, sub, m, -1, il, Strategy{Name: "fifo", Pick: pickFIFO}, nil)
					cpt, _ := crypto.NewECPoint(S, child.X, child.Y)
					checkEcdsaSignature(r, "ecdsa-history/sign-offset", net, out, cpt, m, -1, eks.keys[0].ECDSAPub)
					if len(out.sigs) > 0 {
						nonces = append(nonces, eBytes(out.sigs[0].R))
					}
				case "abort-silent", "abort-tamper":
					un := make(tss.UnSortedPartyIDs, len(sub))
					for a, j := range sub {
						un[a] = work.pids[j]
					}
					pids := tss.SortPartyIDs(un)
					kk := make([]ecdsakeygen.LocalPartySaveData, 0, len(pids))
					for _, id := range pids {
						for j, p := range work.pids {
							if string(p.Key) == string(id.Key) {
								kk = append(kk, work.keys[j])
							}
						}
					}
					net := ecdsaSigningNet(rng, kk, pids, work.t, m, -1, nil)
					if op == "abort-silent" {
						net.Tamper = silence(len(pids) - 1)
					} else {
						trng := rand.New(rand.NewSource(rng.Int63()))
						net.Tamper = func(from int, mm tss.Message) []tss.Message {
							if from != 0 || shortType(mm.Type()) != "SignRound4Message" {
								return []tss.Message{mm}
							}
							tm, _ := tamperMsg(trng, mm, nil, injSpec{Type: "SignRound4Message", Field: "proof_t", Kind: "+1"})
							return []tss.Message{tm}
						}
					}
					net.Run(rng, Strategy{Name: "fifo", Pick: pickFIFO}, 200000)
					done := 0
					for _, nd := range net.Nodes[1:] {
						done += len(nd.Ends)
					}
					r.Assert(done == 0 || op == "abort-silent" && false, "ecdsa-history/"+op, "aborted-session-produces-no-signature-at-honest-peers", func() string { return fmt.Sprint(done) })
				}
				return false
			}()
			if skip {
				continue
			}
			after := snapEc(work.keys)
			r.Assert(sameSnap(before, after) < 0, "ecdsa-history/stored-key-modified/"+op, "stored-key-data-unchanged-by-session", func() string {
				return fmt.Sprintf("history %v: party %d key data changed by %s", ops, sameSnap(before, after), op)
			})
		}
		// directed: the same digest, the same signers, the same in-memory key data, twice
		{
			subs := combos(work.n, work.t+1)
			sub := subs[rng.Intn(len(subs))]
			m := big.NewInt(77007700)
			for rep := 0; rep < 2; rep++ {
				net, out := runEcdsaSigning(rng, work, sub, m, -1, nil, Strategy{Name: "fifo", Pick: pickFIFO}, nil)
				checkEcdsaSignature(r, "ecdsa-history/same-message-same-signers", net, out, work.keys[0].ECDSAPub, m, -1, nil)
				r.Evals++
				if len(out.sigs) > 0 {
					nonces = append(nonces, eBytes(out.sigs[0].R))
				}
			}
		}
		seen := map[string]int{}
		for i, n := range nonces {
			if j, dup := seen[n]; dup {
				r.Assert(false, "ecdsa-history/nonce-reuse", "no-two-sessions-share-a-nonce", func() string { return fmt.Sprint(j, i, n) })
			}
			seen[n] = i
		}
		r.Assert(true, "", "no-two-sessions-share-a-nonce", nil)
		if len(r.Samples) < 6 {
			r.Samples = append(r.Samples, fmt.Sprintf("ecdsa history %v: %d completed sessions, nonces distinct", ops, len(nonces)))
		}

		// ---- EdDSA ----
		edKs, err := genEdKeys(rng, 3, 1, h, Strategy{Name: "fifo", Pick: pickFIFO})
		if err != nil {
			r.Assert(false, "eddsa-keygen/completes", "keygen-completes", func() string { return err.Error() })
			continue
		}
		var edNonces []string
		var edOps []string
		for step := 0; step < k; step++ {
			before := snapEd(edKs.keys)
			op := []string{"reload", "sign", "abort-silent", "sign"}[rng.Intn(4)]
			edOps = append(edOps, op)
			r.Evals++
			r.Distinct++
			r.Dist["eddsa-history-op/"+op]++
			subs := combos(edKs.n, edKs.t+1+rng.Intn(2))
			sub := subs[rng.Intn(len(subs))]
			m := new(big.Int).SetBytes(randBytes(rng, 32))
			if step%2 == 1 {
				m = big.NewInt(31337)
			}
			switch op {
			case "reload":
				re := make([]eddsakeygen.LocalPartySaveData, len(edKs.keys))
				ok := true
				for i := range edKs.keys {
					var d eddsakeygen.LocalPartySaveData
					if err := json.Unmarshal([]byte(before[i]), &d); err != nil {
						ok = false
					}
					re[i] = d
				}
				r.Assert(ok && sameSnap(before, snapEd(re)) < 0, "eddsa/reload", "json-roundtrip-lossless", nil)
				edKs.keys = re
				continue
			case "sign":
				net, out := runEddsaSigning(rng, edKs, sub, m, -1, Strategy{Name: "random", Pick: pickRandom})
				checkEddsaSignature(r, "eddsa-history/sign", net, out, edKs.keys[0].EDDSAPub, m, -1)
				if len(out.sigs) > 0 {
					edNonces = append(edNonces, eBytes(out.sigs[0].Signature[:32]))
				}
			case "abort-silent":
				un := make(tss.UnSortedPartyIDs, len(sub))
				for a, j := range sub {
					un[a] = edKs.pids[j]
				}
				pids := tss.SortPartyIDs(un)
				kk := make([]eddsakeygen.LocalPartySaveData, 0, len(pids))
				for _, id := range pids {
					for j, p := range edKs.pids {
						if string(p.Key) == string(id.Key) {
							kk = append(kk, edKs.keys[j])
						}
					}
				}
				net := eddsaSigningNet(rng, kk, pids, edKs.t, m, -1)
				net.Tamper = silence(0)
				net.Run(rng, Strategy{Name: "fifo", Pick: pickFIFO}, 100000)
			}
			after := snapEd(edKs.keys)
			r.Assert(sameSnap(before, after) < 0, "eddsa-history/stored-key-modified/"+op, "stored-key-data-unchanged-by-session", func() string {
				return fmt.Sprintf("history %v: party %d", edOps, sameSnap(before, after))
			})
		}
		// directed: the same message, the same signers, the same in-memory key data, twice
		{
			subs := combos(edKs.n, edKs.t+1)
			sub := subs[rng.Intn(len(subs))]
			m := big.NewInt(77007700)
			for rep := 0; rep < 2; rep++ {
				net, out := runEddsaSigning(rng, edKs, sub, m, -1, Strategy{Name: "fifo", Pick: pickFIFO})
				checkEddsaSignature(r, "eddsa-history/same-message-same-signers", net, out, edKs.keys[0].EDDSAPub, m, -1)
				r.Evals++
				if len(out.sigs) > 0 {
					edNonces = append(edNonces, eBytes(out.sigs[0].Signature[:32]))
				}
			}
		}
		seen2 := map[string]int{}
		for i, n := range edNonces {
			if j, dup := seen2[n]; dup {
				r.Assert(false, "eddsa-history/nonce-reuse", "no-two-sessions-share-a-nonce", func() string { return fmt.Sprint(j, i, n) })
			}
			seen2[n] = i
		}
	}
}
