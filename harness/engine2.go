package main

import (
	"fmt"
	"sort"
	"strings"

	"github.com/bnb-chain/tss-lib/v2/tss"
)

// waitingNames renders WaitingFor() of a resharing party as o<j>/n<j> (old members first, ascending)
func waitingNames(net *Net, nOld int, p tss.Party) string {
	var olds, news []int
	for _, w := range p.WaitingFor() {
		for k, nd := range net.Nodes {
			if string(nd.ID.Key) == string(w.Key) {
				if k < nOld {
					olds = append(olds, k)
				} else {
					news = append(news, k-nOld)
				}
			}
		}
	}
	sort.Ints(olds)
	sort.Ints(news)
	var out []string
	for _, j := range olds {
		out = append(out, fmt.Sprintf("o%d", j))
	}
	for _, j := range news {
		out = append(out, fmt.Sprintf("n%d", j))
	}
	return strings.Join(out, ",")
}

// engine2Check compares every resharing party's behaviour after each of its events with the two-committee
// engine model. The run must have been made with net.OnEvent = recordWaiting(...) so that the WaitingFor names
// are captured at event time.
func engine2Check(r *Run, proto string, net *Net, nOld int, waits map[int][]string) {
	nNew := len(net.Nodes) - nOld
	for i, nd := range net.Nodes {
		var evs, obs []string
		k := 0
		for _, ev := range net.Events {
			if ev.Node != nd.Name {
				continue
			}
			if ev.Kind == "start" {
				evs = append(evs, "S")
			} else {
				fl := "p"
				if ev.Bcast {
					fl = "b"
				}
				from := -1
				for j, o := range net.Nodes {
					if o.Name == ev.From {
						from = j
						if j >= nOld {
							from = j - nOld
						}
					}
				}
				evs = append(evs, fmt.Sprintf("D:%s:%d:%s", ev.Type, from, fl))
			}
			rnd := strings.TrimPrefix(ev.Round, "round: ")
			if ev.Round == "No more rounds" {
				rnd = "done"
			}
			var em []string
			for _, e := range ev.Emit {
				em = append(em, strings.SplitN(e, ":", 2)[0])
			}
			w := ""
			if k < len(waits[i]) {
				w = waits[i][k]
			}
			k++
			obs = append(obs, fmt.Sprintf("%s/%s/%s/%d", rnd, w, strings.Join(em, ","), ev.Ends))
		}
		if len(evs) == 0 {
			continue
		}
		role, self := "old", i
		if i >= nOld {
			role, self = "new", i-nOld
		}
		args := []string{proto, role, fmt.Sprint(nOld), fmt.Sprint(nNew), fmt.Sprint(self), strings.Join(evs, ";")}
		lean := r.model.Call("engine2_trace", args...)
		line := "engine2_trace " + strings.Join(args, " ")
		r.count("engine2_trace", "value", true, line)
		r.Traces++
		ls := strings.Split(lean, ";")
		if len(ls) != len(obs) {
			r.fail(Failure{Kind: "diff", Key: proto + "/engine", Op: line, Go: strings.Join(obs, ";"), Lean: lean})
			continue
		}
		for k := range obs {
			if ls[k] != obs[k] {
				r.fail(Failure{Kind: "diff", Key: proto + "/engine", Op: line, Go: fmt.Sprintf("event %d (%s): %s", k, evs[k], obs[k]), Lean: ls[k]})
				break
			}
		}
	}
}

// recordWaiting returns an OnEvent hook that captures, per node, WaitingFor (by committee) after each of its events,
// chained after `next`.
func recordWaiting(nOld int, waits map[int][]string, next func(n *Net, ev *Event, d *Delivery)) func(n *Net, ev *Event, d *Delivery) {
	return func(n *Net, ev *Event, d *Delivery) {
		for i, nd := range n.Nodes {
			if nd.Name == ev.Node {
				waits[i] = append(waits[i], waitingNames(n, nOld, nd.Party))
			}
		}
		if next != nil {
			next(n, ev, d)
		}
	}
}
