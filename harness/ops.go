package main

import (
	"strings"
)

// goOps evaluates an op line against the real implementation (arguments in the shared text encoding).
var goOps = map[string]func(a []string) string{}

func goEval(line string) (string, bool) {
	f := strings.Split(line, " ")
	fn, ok := goOps[f[0]]
	if !ok {
		return "", false
	}
	return guard(func() string { return fn(f[1:]) }), true
}

// Do evaluates one op on the implementation and on the model and compares.
func (r *Run) Do(key string, nontrivial bool, op string, args ...string) (goRes string, lean string, same bool) {
	fn, ok := goOps[op]
	if !ok {
		panic("no Go evaluator for op " + op)
	}
	goRes = guard(func() string { return fn(args) })
	lean, same = r.Op(key, nontrivial, goRes, op, args...)
	return
}
