package main

import (
	"fmt"
	"io"
	"math/big"
	"math/rand"
	"strings"

	"github.com/bnb-chain/tss-lib/v2/crypto"
	"github.com/bnb-chain/tss-lib/v2/crypto/mta"
	"github.com/bnb-chain/tss-lib/v2/crypto/paillier"
	"github.com/bnb-chain/tss-lib/v2/ecdsa/keygen"
)

func init() {
	goOps["mta_alice_end"] = func(a []string) string {
		c := curveByTag(a[0])
		sk := &paillier.PrivateKey{PublicKey: paillier.PublicKey{N: dInt(a[2])}, LambdaN: dInt(a[3]), PhiN: dInt(a[4])}
		pf := bobFromInts(dInts(a[5]))
		var al *big.Int
		var err error
		if a[11] == "nil" {
			al, err = mta.AliceEnd(dBytes(a[1]), c, &sk.PublicKey, pf, dInt(a[7]), dInt(a[8]), dInt(a[9]), dInt(a[10]), dInt(a[6]), sk)
		} else {
			wc := &mta.ProofBobWC{ProofBob: pf, U: dPoint(c, a[12])}
			al, err = mta.AliceEndWC(dBytes(a[1]), c, &sk.PublicKey, wc, dPoint(c, a[11]), dInt(a[9]), dInt(a[10]), dInt(a[6]), dInt(a[7]), dInt(a[8]), sk)
		}
		if err != nil {
			return "err"
		}
		return "ok " + eInt(al)
	}
	props["C13"] = runC13
}

func runC13(r *Run, rng *rand.Rand, thorough bool) {
	r.Rule = "the whole exchange AliceInit → BobMid(WC) → AliceEnd(WC) is run by the library for (a,b) ∈ {0,1,q-1,random}² over ordered pairs of vendored parameter sets; Alice's last step (proof gate + decryption + reduction) is an exact op against the Lean model; non-trivial = distinct op line; direct assertions: alpha+beta ≡ ab (mod q), wrong public point rejected, Bob's mask scripted to the ends of its range and to multiples of q; altered cA / cB rejected (+1, plaintext+1, additive inverse mod N², the integer −c, inverse, square, re-randomisation)"
	c := curveByTag("s256")
	q := c.Params().N
	fx := loadFixtures()
	vals := []*big.Int{bi(0), bi(1), new(big.Int).Sub(q, bi(1)), below(rng, q)}
	type pair struct{ i, j int }
	var pairs []pair
	for i := range fx {
		for j := range fx {
			if i != j {
				pairs = append(pairs, pair{i, j})
			}
		}
	}
	rng.Shuffle(len(pairs), func(a, b int) { pairs[a], pairs[b] = pairs[b], pairs[a] })
	if !thorough {
		pairs = pairs[:3]
	}
	for pi, pr := range pairs {
		A, B := &fx[pr.i], &fx[pr.j]
		for ai, a := range vals {
			for bi_, b := range vals {
				if !thorough && (ai+bi_+pi)%4 != 0 {
					continue
				}
				for _, wc := range []bool{false, true} {
					if wc && b.Sign() == 0 {
						continue // B = b·G is the identity: not expressible
					}
					mtaOnce(r, rng, A, B, a, b, wc, q, nil)
				}
			}
		}
	}
	// directed: Bob's mask beta' at the ends of its range [0, q^5) and at multiples of q, with small and large secrets
	{
		A, B := &fx[pairs[0].i], &fx[pairs[0].j]
		q5 := new(big.Int).Exp(q, bi(5), nil)
		masks := []*big.Int{bi(0), bi(1), new(big.Int).Set(q), new(big.Int).Mul(q, bi(7)), new(big.Int).Sub(q5, bi(1)), new(big.Int).Sub(q5, bi(6)), new(big.Int).Sub(q5, q)}
		secrets := [][2]*big.Int{{bi(1), bi(1)}, {new(big.Int).Sub(q, bi(1)), new(big.Int).Sub(q, bi(1))}, {bi(2), bi(3)}, {bi(0), bi(5)}}
		for mi, m := range masks {
			for si, ab := range secrets {
				if !thorough && (mi+si)%2 == 1 {
					continue
				}
				mtaOnce(r, rng, A, B, ab[0], ab[1], (mi+si)%4 < 2, q, m)
			}
		}
	}
}

func mtaOnce(r *Run, rng *rand.Rand, A, B *keygen.LocalPartySaveData, a, b *big.Int, wc bool, q *big.Int, betaPrm *big.Int) {
	c := curveByTag("s256")
	sess := randBytes(rng, 1+rng.Intn(40))
	pk := &A.PaillierSK.PublicKey
	cA, rpf, err := mta.AliceInit(c, pk, a, B.NTildei, B.H1i, B.H2i, rdr(rng))
	if err != nil {
		r.Assert(false, "mta.AliceInit/honest", "alice-init-succeeds", func() string { return err.Error() })
		return
	}
	// Bob's first draw is the mask beta' < q^5; when given it is scripted, the rest of his randomness is ordinary
	var bobRd io.Reader = rdr(rng)
	if betaPrm != nil {
		q5 := new(big.Int).Exp(q, bi(5), nil)
		cr := &coinReader{rng: rand.New(rand.NewSource(rng.Int63()))}
		cr.push(betaPrm, q5.BitLen())
		bobRd = cr
	}
	var beta, cB *big.Int
	var pf *mta.ProofBob
	Xs, Us := "nil", "nil"
	var Bpt *crypto.ECPoint
	if wc {
		Bpt = crypto.ScalarBaseMult(c, b)
		var pfw *mta.ProofBobWC
		beta, cB, _, pfw, err = mta.BobMidWC(sess, c, pk, rpf, b, cA, A.NTildei, A.H1i, A.H2i, B.NTildei, B.H1i, B.H2i, Bpt, bobRd)
		if err == nil {
			pf = pfw.ProofBob
			Xs, Us = ePoint(Bpt), ePoint(pfw.U)
		}
	} else {
		beta, cB, _, pf, err = mta.BobMid(sess, c, pk, rpf, b, cA, A.NTildei, A.H1i, A.H2i, B.NTildei, B.H1i, B.H2i, bobRd)
	}
	name := "mta"
	if wc {
		name = "mta-wc"
	}
	if betaPrm != nil {
		name += "/scripted-mask"
	}
	if err != nil {
		r.Assert(false, name+".BobMid/honest", "bob-mid-succeeds", func() string { return err.Error() })
		return
	}
	sk := A.PaillierSK
	args := []string{"s256", eBytes(sess), eInt(sk.N), eInt(sk.LambdaN), eInt(sk.PhiN), eInts(bobToInts(pf)), eInt(A.NTildei), eInt(A.H1i), eInt(A.H2i), eInt(cA), eInt(cB), Xs, Us}
	g, _, _ := r.Do(name+".AliceEnd/honest", true, "mta_alice_end", args...)
	r.Traces++
	if !strings.HasPrefix(g, "ok ") {
		r.Assert(false, name+".AliceEnd/honest", "alice-end-succeeds", func() string { return g })
		return
	}
	alpha := dInt(strings.TrimPrefix(g, "ok "))
	sum := new(big.Int).Mod(new(big.Int).Add(alpha, beta), q)
	want := new(big.Int).Mod(new(big.Int).Mul(a, b), q)
	r.Assert(sum.Cmp(want) == 0, name+"/shares", "alpha+beta=ab-mod-q", func() string { return eInt(a) + "*" + eInt(b) })
	// alterations in transit
	alt := func(what string, idx int, v *big.Int) {
		a2 := append([]string{}, args...)
		a2[idx] = eInt(v)
		g2, _, _ := r.Do(name+".AliceEnd/"+what, true, "mta_alice_end", a2...)
		r.Assert(!strings.HasPrefix(g2, "ok "), name+".AliceEnd/"+what, "altered-ciphertext-rejected", func() string { return what + " -> " + g2 })
	}
	N2 := new(big.Int).Mul(sk.N, sk.N)
	alt("cB+1", 10, new(big.Int).Add(cB, bi(1)))
	alt("cB*(1+N)", 10, new(big.Int).Mod(new(big.Int).Mul(cB, new(big.Int).Add(sk.N, bi(1))), N2)) // adds 1 to the plaintext
	alt("cA+1", 9, new(big.Int).Add(cA, bi(1)))
	alt("cA*(1+N)", 9, new(big.Int).Mod(new(big.Int).Mul(cA, new(big.Int).Add(sk.N, bi(1))), N2))
	// algebraically related ciphertexts: additive inverse modulo N² (keeps every even power), inverse,
	// square, and a re-randomisation c·k^N of the same plaintext
	kN := new(big.Int).Exp(unitBelow(rng, sk.N), sk.N, N2)
	for _, cc := range []struct {
		name string
		idx  int
		v    *big.Int
	}{{"cB", 10, cB}, {"cA", 9, cA}} {
		alt("N^2-"+cc.name, cc.idx, new(big.Int).Sub(N2, cc.v))
		if inv := new(big.Int).ModInverse(cc.v, N2); inv != nil && inv.Cmp(cc.v) != 0 {
			alt(cc.name+"^-1", cc.idx, inv)
		}
		alt(cc.name+"^2", cc.idx, new(big.Int).Mod(new(big.Int).Mul(cc.v, cc.v), N2))
		alt(cc.name+"*k^N", cc.idx, new(big.Int).Mod(new(big.Int).Mul(cc.v, kN), N2))
	}
	if wc {
		// Bob's public point must be b·G
		a2 := append([]string{}, args...)
		wrong, _ := Bpt.Add(crypto.ScalarBaseMult(c, bi(1)))
		a2[11] = ePoint(wrong)
		g2, _, _ := r.Do(name+".AliceEnd/wrong-point", true, "mta_alice_end", a2...)
		r.Assert(!strings.HasPrefix(g2, "ok "), name+".AliceEnd/wrong-point", "wrong-public-point-rejected", func() string { return g2 })
	}
	// Bob's side rejects an altered cA (range proof is bound to it)
	_, _, _, _, err = mta.BobMid(sess, c, pk, rpf, b, new(big.Int).Mod(new(big.Int).Mul(cA, new(big.Int).Add(sk.N, bi(1))), N2), A.NTildei, A.H1i, A.H2i, B.NTildei, B.H1i, B.H2i, rdr(rng))
	r.Assert(err != nil, name+".BobMid/altered-cA", "altered-ciphertext-rejected", nil)
	_, _, _, _, err = mta.BobMid(sess, c, pk, rpf, b, new(big.Int).Sub(N2, cA), A.NTildei, A.H1i, A.H2i, B.NTildei, B.H1i, B.H2i, rdr(rng))
	r.Assert(err != nil, name+".BobMid/negated-cA", "altered-ciphertext-rejected", func() string { return "N^2-cA with the range proof made for cA" })
	// the integer −c (same absolute value, so the same bytes under every hash; every even power agrees with c's):
	// not expressible on the wire, but the exported functions take *big.Int
	signFlip := func(what string, f func() error) {
		var err error
		var pan interface{}
		func() {
			defer func() { pan = recover() }()
			err = f()
		}()
		r.Evals++
		r.Dist[name+"/sign-flip"]++
		r.Assert(pan == nil, name+"."+what+"/no-panic", "altered-ciphertext-rejected-with-an-error", func() string { return fmt.Sprint(pan) })
		r.Assert(pan != nil || err != nil, name+"."+what, "altered-ciphertext-rejected", func() string { return "the integer -c in place of c was accepted" })
	}
	negA, negB := new(big.Int).Neg(cA), new(big.Int).Neg(cB)
	signFlip("BobMid/minus-cA", func() error {
		if wc {
			_, _, _, _, err := mta.BobMidWC(sess, c, pk, rpf, b, negA, A.NTildei, A.H1i, A.H2i, B.NTildei, B.H1i, B.H2i, Bpt, rdr(rng))
			return err
		}
		_, _, _, _, err := mta.BobMid(sess, c, pk, rpf, b, negA, A.NTildei, A.H1i, A.H2i, B.NTildei, B.H1i, B.H2i, rdr(rng))
		return err
	})
	for _, v := range []struct {
		what   string
		cA, cB *big.Int
	}{{"AliceEnd/minus-cB", cA, negB}} { // (Alice's own cA is not a received value: −cA there is not asserted)
		v := v
		signFlip(v.what, func() error {
			if wc {
				_, err := mta.AliceEndWC(sess, c, pk, &mta.ProofBobWC{ProofBob: pf, U: dPoint(c, Us)}, Bpt, v.cA, v.cB, A.NTildei, A.H1i, A.H2i, sk)
				return err
			}
			_, err := mta.AliceEnd(sess, c, pk, pf, A.H1i, A.H2i, v.cA, v.cB, A.NTildei, sk)
			return err
		})
	}
}
