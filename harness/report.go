package main

import (
	"crypto/sha256"
	"encoding/json"
	"fmt"
	"github.com/bnb-chain/tss-lib/v2/tss"
	"os"
	"sort"
	"strings"
	"time"
)

// Failure is one thing that went wrong in a run.
//
//	Kind "diff"   : the Lean model and the implementation disagree on an op (the tie is broken)
//	Kind "assert" : a direct assertion of the property's own words failed on the implementation
//	                (a concrete failing input: PropertyFalse is true)
type Failure struct {
	Kind          string `json:"kind"`
	Key           string `json:"key"` // stable key: call site + input class, matched against KNOWN_FINDINGS.txt
	Op            string `json:"op"`
	Go            string `json:"go,omitempty"`
	Lean          string `json:"lean,omitempty"`
	Detail        string `json:"detail,omitempty"`
	PropertyFalse bool   `json:"property_false"`
}

type Run struct {
	Prop     string         `json:"property_id"`
	Tier     string         `json:"tier"`
	Seed     int64          `json:"seed"`
	Evals    int            `json:"evaluations"`
	Distinct int            `json:"distinct_nontrivial"`
	Traces   int            `json:"traces_validated_against_impl"`
	Asserts  int            `json:"direct_assertions"`
	Samples  []string       `json:"samples"`
	Dist     map[string]int `json:"distribution"`
	Failures []Failure      `json:"failures"`
	Notes    []string       `json:"notes,omitempty"`
	Rule     string         `json:"rule"`

	seen     map[[32]byte]bool
	model    *Model
	failKeys map[string]int
}

func NewRun(prop, tier string, seed int64, m *Model) *Run {
	return &Run{Prop: prop, Tier: tier, Seed: seed, Dist: map[string]int{}, seen: map[[32]byte]bool{},
		model: m, failKeys: map[string]int{}}
}

func sameResult(a, b string) bool {
	if a == b {
		return true
	}
	if strings.HasPrefix(a, "panic") && strings.HasPrefix(b, "panic") {
		return true
	}
	if strings.HasPrefix(a, "err") && strings.HasPrefix(b, "err") {
		ta, tb := strings.TrimPrefix(a, "err"), strings.TrimPrefix(b, "err")
		return ta == "" || tb == ""
	}
	return false
}

func class(res string) string {
	f := strings.Fields(res)
	if len(f) == 0 {
		return "empty"
	}
	switch f[0] {
	case "ok", "err", "panic":
		if len(f) > 1 && (f[0] != "ok" || f[1] == "true" || f[1] == "false") {
			return f[0] + ":" + f[1]
		}
		return f[0]
	case "accept", "reject", "nil", "true", "false":
		return f[0]
	}
	return "value"
}

func (r *Run) count(opname, res string, nontrivial bool, line string) {
	r.Evals++
	r.Dist[opname+"/"+class(res)]++
	if nontrivial {
		h := sha256.Sum256([]byte(line))
		if !r.seen[h] {
			r.seen[h] = true
			r.Distinct++
		}
	}
	if len(r.Samples) < 12 && (r.Evals%97 == 1 || len(r.Samples) < 3) {
		s := line + " => " + res
		if len(s) > 400 {
			s = s[:400] + "…"
		}
		r.Samples = append(r.Samples, s)
	}
}

// Op runs one correspondence op: goRes is what the implementation did, the model is asked the same.
// key identifies the call site + input class for known-finding matching.
func (r *Run) Op(key string, nontrivial bool, goRes string, op string, args ...string) (lean string, same bool) {
	line := op
	if len(args) > 0 {
		line += " " + strings.Join(args, " ")
	}
	lean = r.model.CallLine(line)
	r.count(op, goRes, nontrivial, line)
	same = sameResult(goRes, lean)
	if !same {
		r.fail(Failure{Kind: "diff", Key: key, Op: line, Go: goRes, Lean: lean})
	}
	return lean, same
}

// Assert records a direct assertion of the property's own statement on the implementation.
func (r *Run) Assert(ok bool, key string, what string, detail func() string) {
	r.Asserts++
	r.Dist["assert/"+what]++
	if !ok {
		d := ""
		if detail != nil {
			d = detail()
		}
		r.fail(Failure{Kind: "assert", Key: key, Op: what, Detail: d, PropertyFalse: true})
	}
}

func (r *Run) fail(f Failure) {
	r.failKeys[f.Kind+"/"+f.Key]++
	if r.failKeys[f.Kind+"/"+f.Key] > 5 { // keep the report readable; count the rest
		r.Dist["suppressed-failure/"+f.Kind+"/"+f.Key]++
		return
	}
	if len(f.Op) > 20000 {
		f.Op = f.Op[:20000] + "…"
	}
	r.Failures = append(r.Failures, f)
}

func (r *Run) Note(format string, a ...interface{}) {
	r.Notes = append(r.Notes, fmt.Sprintf(format, a...))
}

func (r *Run) Write(path string) error {
	if r.Failures == nil {
		r.Failures = []Failure{}
	}
	sort.SliceStable(r.Failures, func(i, j int) bool { return r.Failures[i].Kind < r.Failures[j].Kind })
	b, err := json.MarshalIndent(r, "", " ")
	if err != nil {
		return err
	}
	return os.WriteFile(path, b, 0o644)
}

// guard runs f and maps a panic in the calling goroutine to the canonical result "panic".
func guard(f func() string) (res string) {
	defer func() {
		if e := recover(); e != nil {
			res = fmt.Sprintf("panic %v", e)
			res = strings.ReplaceAll(res, "\n", " ")
		}
	}()
	return f()
}

// withTimeout runs f in a goroutine (panics recovered there) and maps a call that does not return
// within 10 s to "err hang".
func withTimeout(f func() string) string { return withTimeoutD(10*time.Second, f) }

func withTimeoutD(d time.Duration, f func() string) string {
	ch := make(chan string, 1)
	go func() { ch <- guard(f) }()
	select {
	case s := <-ch:
		return s
	case <-time.After(d):
		return "err hang"
	}
}

// refusedBeforeStore: the error of an update call that was refused before the message was stored (parsing, sender
// or ValidateBasic): it carries the round the party happens to be in, but it is not a verdict of that round's checks
func refusedBeforeStore(e *tss.Error) bool {
	if e == nil {
		return false
	}
	for _, m := range []string{"received nil msg", "invalid sender", "ValidateBasic", "sender index too great", "proto:", "unmarshal", "cannot parse"} {
		if strings.Contains(e.Error(), m) {
			return true
		}
	}
	return false
}
