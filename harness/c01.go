package main

import (
	"bytes"
	"crypto/ecdsa"
	"fmt"
	"math/big"
	"math/rand"
	"strings"

	btcecdsa "github.com/btcsuite/btcd/btcec/v2/ecdsa"

	"github.com/bnb-chain/tss-lib/v2/common"
	"github.com/bnb-chain/tss-lib/v2/crypto"
	"github.com/bnb-chain/tss-lib/v2/crypto/commitments"
	ecdsakeygen "github.com/bnb-chain/tss-lib/v2/ecdsa/keygen"
	ecdsasigning "github.com/bnb-chain/tss-lib/v2/ecdsa/signing"
	"github.com/bnb-chain/tss-lib/v2/tss"
)

func init() {
	goOps["ecdsa_verify"] = func(a []string) string {
		pub := dPoint(tss.S256(), a[0])
		pk := ecdsa.PublicKey{Curve: tss.S256(), X: pub.X(), Y: pub.Y()}
		m := dInt(a[1])
		hash := make([]byte, 32)
		m.FillBytes(hash)
		return eBool(ecdsa.Verify(&pk, hash, dInt(a[2]), dInt(a[3])))
	}
	goOps["ecdsa_recover"] = func(a []string) string {
		sig := make([]byte, 65)
		sig[0] = byte(27 + atoi(a[3]))
		dInt(a[1]).FillBytes(sig[1:33])
		dInt(a[2]).FillBytes(sig[33:65])
		hash := make([]byte, 32)
		dInt(a[0]).FillBytes(hash)
		pk, _, err := btcecdsa.RecoverCompact(sig, hash)
		if err != nil {
			return "err"
		}
		return "ok " + eXY(pk.X(), pk.Y())
	}
	goOps["prepare_weight"] = func(a []string) string {
		c := curveByTag(a[0])
		ks := dInts(a[1])
		i := atoi(a[2])
		pts := make([]*crypto.ECPoint, len(ks))
		for j := range pts {
			pts[j] = crypto.ScalarBaseMult(c, bi(int64(j+2)))
		}
		w, _ := ecdsasigning.PrepareForSigning(c, i, len(ks), dInt(a[3]), ks, pts)
		return "ok " + eInt(w)
	}
	goOps["prepare_bigws"] = func(a []string) string {
		c := tss.S256()
		ks := dInts(a[0])
		var pts []*crypto.ECPoint
		for _, s := range strings.Split(a[1], ",") {
			pts = append(pts, dPoint(c, s))
		}
		_, ws := ecdsasigning.PrepareForSigning(c, 0, len(ks), bi(1), ks, pts)
		return "ok " + ePoints(ws)
	}
	props["C01"] = runC01
}

type sigOutcome struct {
	sigs    []*common.SignatureData
	errs    []string
	emitted [][]tss.Message
	panics  []string
}

func runEcdsaSigning(rng *rand.Rand, ks *ecKeySet, subset []int, msg *big.Int, fullLen int, kdd *big.Int, st Strategy, order []int) (*Net, *sigOutcome) {
	// signer party ids (optionally presented in another order before sorting: the library sorts by key)
	un := make(tss.UnSortedPartyIDs, len(subset))
	for a, j := range subset {
		un[a] = tss.NewPartyID(ks.pids[j].Id, ks.pids[j].Moniker, new(big.Int).SetBytes(ks.pids[j].Key))
	}
	if order != nil {
		un2 := make(tss.UnSortedPartyIDs, len(un))
		for a, o := range order {
			un2[a] = un[o]
		}
		un = un2
	}
	pids := tss.SortPartyIDs(un)
	keys := make([]ecdsakeygen.LocalPartySaveData, len(pids))
	for a, id := range pids {
		for j, p := range ks.pids {
			if bytes.Equal(p.Key, id.Key) {
				keys[a] = ks.keys[j]
			}
		}
	}
	net := ecdsaSigningNet(rng, keys, pids, ks.t, msg, fullLen, kdd)
	net.Run(rng, st, 200000)
	out := &sigOutcome{panics: net.Panics}
	for _, nd := range net.Nodes {
		for _, e := range nd.Ends {
			out.sigs = append(out.sigs, e.(*common.SignatureData))
		}
		if nd.Err != nil {
			out.errs = append(out.errs, errDesc(nd.Err))
		}
		out.emitted = append(out.emitted, nd.Emitted)
	}
	return net, out
}

// assertions on a completed ECDSA signing run; returns the model op arguments reconstructed from the transcript
func checkEcdsaSignature(r *Run, what string, net *Net, out *sigOutcome, pub *crypto.ECPoint, m *big.Int, fullLen int, notUnder *crypto.ECPoint) {
	n := len(net.Nodes)
	q := tss.S256().Params().N
	r.Assert(len(out.sigs) == n && len(out.errs) == 0 && len(out.panics) == 0, what+"/completes", "every-signer-finishes-exactly-once", func() string {
		return fmt.Sprintf("sigs=%d/%d errs=%v panics=%v", len(out.sigs), n, out.errs, out.panics)
	})
	if len(out.sigs) == 0 {
		return
	}
	s0 := out.sigs[0]
	for i, s := range out.sigs {
		same := bytes.Equal(s.Signature, s0.Signature) && bytes.Equal(s.R, s0.R) && bytes.Equal(s.S, s0.S) && bytes.Equal(s.M, s0.M) && bytes.Equal(s.SignatureRecovery, s0.SignatureRecovery)
		r.Assert(same, what+"/same-output", "all-signers-output-the-same-signature", func() string { return fmt.Sprint("signer ", i) })
	}
	R, S := new(big.Int).SetBytes(s0.R), new(big.Int).SetBytes(s0.S)
	half := new(big.Int).Rsh(q, 1)
	r.Assert(len(s0.R) == 32 && len(s0.S) == 32 && len(s0.Signature) == 64 && bytes.Equal(s0.Signature, append(append([]byte{}, s0.R...), s0.S...)),
		what+"/widths", "fixed-width-R-S-and-Signature=R||S", func() string { return fmt.Sprint(len(s0.R), len(s0.S), len(s0.Signature)) })
	r.Assert(S.Cmp(half) <= 0 && S.Sign() > 0, what+"/low-s", "S-in-lower-half", nil)
	// echoed message
	want := m.Bytes()
	if fullLen > 0 {
		want = make([]byte, fullLen)
		m.FillBytes(want)
	}
	r.Assert(bytes.Equal(s0.M, want), what+"/echo", "echoed-message-equals-digest", func() string { return eBytes(s0.M) + " want " + eBytes(want) })
	// independent verification: Go stdlib on the btcec curve, and the Lean model's own arithmetic
	hash := make([]byte, 32)
	m.FillBytes(hash)
	pk := ecdsa.PublicKey{Curve: tss.S256(), X: pub.X(), Y: pub.Y()}
	r.Assert(ecdsa.Verify(&pk, hash, R, S), what+"/verify", "signature-verifies-under-group-key", nil)
	gv, _, _ := r.Do(what+"/verify", true, "ecdsa_verify", ePoint(pub), eInt(m), eInt(R), eInt(S))
	r.Assert(gv == "true", what+"/verify-model", "signature-verifies-under-group-key", nil)
	if notUnder != nil {
		pk2 := ecdsa.PublicKey{Curve: tss.S256(), X: notUnder.X(), Y: notUnder.Y()}
		r.Assert(!ecdsa.Verify(&pk2, hash, R, S), what+"/not-under-parent", "signature-does-not-verify-under-other-key", nil)
	}
	// recovery byte recovers exactly the group key (btcec and the model)
	recid := int(s0.SignatureRecovery[0])
	gr, _, _ := r.Do(what+"/recover", true, "ecdsa_recover", eInt(m), eInt(R), eInt(S), fmt.Sprint(recid))
	r.Assert(gr == "ok "+ePoint(pub), what+"/recover", "recovery-byte-recovers-group-key", func() string { return gr })
	// transcript re-judgement: what every signer must output given the broadcast messages
	thetas := make([]*big.Int, n)
	gammas := make([]string, n)
	ss := make([]*big.Int, n)
	okT := true
	for i, em := range out.emitted {
		for _, mm := range em {
			switch c := mm.(tss.ParsedMessage).Content().(type) {
			case *ecdsasigning.SignRound3Message:
				thetas[i] = new(big.Int).SetBytes(c.GetTheta())
			case *ecdsasigning.SignRound4Message:
				d := c.UnmarshalDeCommitment()
				if len(d) == 3 {
					gammas[i] = eXY(d[1], d[2])
				}
			case *ecdsasigning.SignRound9Message:
				ss[i] = c.UnmarshalS()
			}
		}
		if thetas[i] == nil || gammas[i] == "" || ss[i] == nil {
			okT = false
		}
	}
	if okT {
		goRes := fmt.Sprintf("ok %s %s %s %d %s", eBytes(s0.R), eBytes(s0.S), eBytes(s0.Signature), recid, eBytes(s0.M))
		r.Op(what+"/transcript", true, goRes, "ecdsa_from_transcript", ePoint(pub), eInts(thetas), strings.Join(gammas, ","), eInts(ss), eInt(m), fmt.Sprint(maxInt(fullLen, 0)))
		r.Traces++
	}
	_ = commitments.HashLength
}

func runC01(r *Run, rng *rand.Rand, thorough bool) {
	r.Rule = "whole ECDSA signing runs on the vendored 5-party key (t=2) and on freshly generated keys: signer subsets of size ≥ t+1 (incl. > t+1, permuted id order), digests {0,1,q-1,leading-zero,random}, fullBytesLen {absent,0,|m|,32}, delivery strategies of C07; each run is re-judged by the Lean model from the broadcast transcript (θ_j, Γ_j, s_j ↦ R, s, finalize) and its signature checked by the model's own ECDSA verify/recover; non-trivial = distinct op line; direct assertions: same output at every signer, stdlib verification, low S, widths, R||S, btcec/model recovery = group key, echoed digest, digest ≥ q refused before any message"
	q := tss.S256().Params().N
	ks := fixtureEcKeys()
	digests := []*big.Int{bi(0), bi(1), new(big.Int).Sub(q, bi(1)), new(big.Int).Rsh(randInt(rng, 256), 16), new(big.Int).Mod(randInt(rng, 256), q)}
	all := combos(ks.n, ks.t+1)
	all = append(all, combos(ks.n, ks.t+2)...)
	all = append(all, combos(ks.n, ks.n)...)
	rng.Shuffle(len(all), func(i, j int) { all[i], all[j] = all[j], all[i] })
	nRuns := 5
	if thorough {
		nRuns = len(all)
	}
	for ri := 0; ri < nRuns; ri++ {
		sub := all[ri%len(all)]
		m := digests[ri%len(digests)]
		fullLen := []int{-1, 0, 32, len(m.Bytes())}[ri%4]
		if fullLen > 0 && fullLen < len(m.Bytes()) {
			fullLen = 32
		}
		sts := strategies(len(sub), rng)
		st := sts[(ri+int(r.Seed))%len(sts)]
		order := rng.Perm(len(sub))
		net, out := runEcdsaSigning(rng, ks, sub, m, fullLen, nil, st, order)
		r.Dist["ecdsa-signing/"+st.Name]++
		what := "ecdsa-signing"
		checkEcdsaSignature(r, what, net, out, ks.keys[0].ECDSAPub, m, fullLen, nil)
		if len(r.Samples) < 8 {
			r.Samples = append(r.Samples, fmt.Sprintf("ecdsa signing signers=%v digest=%s fullBytesLen=%d schedule=%s events=%d", sub, eInt(m), fullLen, st.Name, len(net.Events)))
		}
	}
	// directed: nonce shares and digest steered so that r and s hit the boundaries of the canonical form
	// (leading zero bytes in r, in s; s just below / above q/2 where the low-S flip happens; s = 1, s = q-1)
	{
		// the private key, from the vendored shares (the harness holds all of them)
		ids := make([]*big.Int, ks.t+1)
		xs := make([]*big.Int, ks.t+1)
		for i := 0; i <= ks.t; i++ {
			ids[i], xs[i] = new(big.Int).Mod(ks.keys[i].ShareID, q), ks.keys[i].Xi
		}
		x := lagrangeZero(q, ids, xs)
		// u with (u·G).x < 2^248: R = (Σk)^-1·G = u·G gets a leading zero byte
		u := big.NewInt(1)
		for ; ; u.Add(u, bi(1)) {
			if crypto.ScalarBaseMult(tss.S256(), u).X().BitLen() <= 248 {
				break
			}
		}
		half := new(big.Int).Rsh(q, 1)
		targets := []*big.Int{bi(1), randInt(rng, 200), new(big.Int).Set(half), new(big.Int).Add(half, bi(1)), new(big.Int).Sub(q, bi(1)), new(big.Int).Sub(q, randInt(rng, 200))}
		if !thorough {
			targets = []*big.Int{targets[2], targets[3], targets[(int(r.Seed)%2)*4+(int(r.Seed)/2)%2]}
		}
		for ti, sStar := range targets {
			useU := u
			if ti%2 == 1 {
				useU = new(big.Int).Add(below(rng, new(big.Int).Sub(q, bi(2))), bi(1)) // ordinary r, boundary s
			}
			kTotal := new(big.Int).ModInverse(useU, q)
			R := crypto.ScalarBaseMult(tss.S256(), useU)
			// m = s*·u − r·x (mod q)
			m := new(big.Int).Mul(sStar, useU)
			m.Sub(m, new(big.Int).Mul(R.X(), x)).Mod(m, q)
			sub := all[ti%len(all)]
			un := make(tss.UnSortedPartyIDs, len(sub))
			for a, j := range sub {
				un[a] = ks.pids[j]
			}
			pids := tss.SortPartyIDs(un)
			kk := make([]ecdsakeygen.LocalPartySaveData, 0, len(pids))
			for _, id := range pids {
				for j, p := range ks.pids {
					if bytes.Equal(p.Key, id.Key) {
						kk = append(kk, ks.keys[j])
					}
				}
			}
			net := ecdsaSigningNet(rng, kk, pids, ks.t, m, -1, nil)
			sum := new(big.Int)
			for j := 1; j < len(net.Nodes); j++ {
				kj := new(big.Int).Add(below(rng, new(big.Int).Sub(q, bi(2))), bi(1))
				sum.Add(sum, kj)
				net.Nodes[j].Rand.prefix = padTo(kj, 256)
			}
			k0 := new(big.Int).Mod(new(big.Int).Sub(kTotal, sum), q)
			if k0.Sign() == 0 {
				continue
			}
			net.Nodes[0].Rand.prefix = padTo(k0, 256)
			net.Run(rng, Strategy{Name: "fifo", Pick: pickFIFO}, 200000)
			out := &sigOutcome{panics: net.Panics}
			for _, nd := range net.Nodes {
				for _, e := range nd.Ends {
					out.sigs = append(out.sigs, e.(*common.SignatureData))
				}
				if nd.Err != nil {
					out.errs = append(out.errs, errDesc(nd.Err))
				}
				out.emitted = append(out.emitted, nd.Emitted)
			}
			r.Dist["ecdsa-signing/directed-boundary"]++
			checkEcdsaSignature(r, "ecdsa-signing/directed", net, out, ks.keys[0].ECDSAPub, m, -1, nil)
			if len(out.sigs) > 0 {
				R0, S0 := new(big.Int).SetBytes(out.sigs[0].R), new(big.Int).SetBytes(out.sigs[0].S)
				wantS := new(big.Int).Set(sStar)
				if wantS.Cmp(half) > 0 {
					wantS.Sub(q, wantS)
				}
				r.Assert(R0.Cmp(R.X()) == 0 && S0.Cmp(wantS) == 0, "ecdsa-signing/directed/steering", "steered-run-produced-the-intended-(r,s)", func() string {
					return fmt.Sprintf("r=%s want %s; s=%s want %s", eInt(R0), eInt(R.X()), eInt(S0), eInt(wantS))
				})
			}
		}
	}
	// freshly generated key with another (n,t)
	cfgs := [][2]int{{3, 1}}
	if thorough {
		cfgs = [][2]int{{2, 1}, {3, 1}, {3, 2}, {4, 2}, {5, 3}, {5, 4}}
	}
	for ci, c := range cfgs {
		k2, err := genEcKeys(rng, c[0], c[1], ci+1, Strategy{Name: "fifo", Pick: pickFIFO})
		if err != nil {
			r.Assert(false, "ecdsa-keygen/completes", "keygen-completes", func() string { return err.Error() })
			continue
		}
		subs := combos(c[0], c[1]+1)
		sub := subs[rng.Intn(len(subs))]
		m := digests[(ci+3)%len(digests)]
		net, out := runEcdsaSigning(rng, k2, sub, m, -1, nil, Strategy{Name: "random", Pick: pickRandom}, nil)
		checkEcdsaSignature(r, "ecdsa-signing", net, out, k2.keys[0].ECDSAPub, m, -1, nil)
	}
	// digest not below the curve order: refused before anything is sent
	for _, m := range []*big.Int{new(big.Int).Set(q), new(big.Int).Add(q, bi(1)), new(big.Int).Lsh(bi(1), 256)} {
		net, out := runEcdsaSigning(rng, ks, []int{0, 1, 2}, m, -1, nil, Strategy{Name: "fifo", Pick: pickFIFO}, nil)
		sent := 0
		for _, e := range out.emitted {
			sent += len(e)
		}
		r.Assert(len(out.sigs) == 0 && sent == 0 && len(out.errs) == len(net.Nodes), "ecdsa-signing/digest>=q", "digest-not-below-order-refused-before-any-message", func() string {
			return fmt.Sprintf("sigs=%d sent=%d errs=%d", len(out.sigs), sent, len(out.errs))
		})
	}
	// Lagrange weights: exact op against the model for random id sets
	for i := 0; i < 12; i++ {
		k := 2 + rng.Intn(4)
		ids := partyKeys(rng, k, i, q)
		xi := new(big.Int).Mod(randInt(rng, 256), q)
		r.Do("signing.PrepareForSigning", true, "prepare_weight", "s256", eInts(ids), fmt.Sprint(rng.Intn(k)), eInt(xi))
	}
	// … and the public weighted points it returns for the other signers: W_j = λ_j·X_j, for every signer count
	// (an independent Lagrange computation; X_j = (j+2)·G)
	S := tss.S256()
	for k := 2; k <= 6; k++ {
		for rep := 0; rep < 2; rep++ {
			ids := partyKeys(rng, k, k+rep, q)
			pts := make([]*crypto.ECPoint, k)
			for j := range pts {
				pts[j] = crypto.ScalarBaseMult(S, bi(int64(j+2)))
			}
			i := rng.Intn(k)
			xi := bi(int64(i + 2))
			wi, bigWs := ecdsasigning.PrepareForSigning(S, i, k, xi, ids, pts)
			r.Do("signing.PrepareForSigning/public-weights", true, "prepare_bigws", eInts(ids), ePoints(pts))
			lam := func(j int) *big.Int {
				num, den := bi(1), bi(1)
				for c := 0; c < k; c++ {
					if c == j {
						continue
					}
					num.Mul(num, ids[c]).Mod(num, q)
					den.Mul(den, new(big.Int).Sub(ids[c], ids[j])).Mod(den, q)
				}
				return num.Mul(num, new(big.Int).ModInverse(den, q)).Mod(num, q)
			}
			r.Evals++
			okW := wi != nil && wi.Cmp(new(big.Int).Mod(new(big.Int).Mul(lam(i), xi), q)) == 0 && len(bigWs) == k
			for j := 0; okW && j < k; j++ {
				want := crypto.ScalarBaseMult(S, new(big.Int).Mod(new(big.Int).Mul(lam(j), bi(int64(j+2))), q))
				okW = bigWs[j] != nil && bigWs[j].X().Cmp(want.X()) == 0 && bigWs[j].Y().Cmp(want.Y()) == 0
			}
			r.Assert(okW, "signing.PrepareForSigning/public-weights", "W_j=lambda_j*X_j-for-every-signer", func() string {
				return fmt.Sprintf("signers=%d ids=%s own=%d", k, eInts(ids), i)
			})
		}
	}
}
