package main

import (
	"fmt"
	"github.com/bnb-chain/tss-lib/v2/crypto"
	"math/big"
	"math/rand"
	"strings"

	"github.com/bnb-chain/tss-lib/v2/common"
	ecdsakeygen "github.com/bnb-chain/tss-lib/v2/ecdsa/keygen"
	"github.com/bnb-chain/tss-lib/v2/tss"
)

func bytesListHex(bs [][]byte) string {
	if len(bs) == 0 {
		return "_"
	}
	out := make([]string, len(bs))
	for i, b := range bs {
		out[i] = eBytes(b)
	}
	return strings.Join(out, ",")
}

// blameCorrespondenceEc re-judges ECDSA key generation rounds 2 and 3 with the Lean round models (Core/BlameEc):
// from the messages an honest party holds (its own and what it received after the deviator's tampering) the model
// predicts "continue" or the error's culprit list; the Go party must report exactly that.
func blameCorrespondenceEc(r *Run, rng *rand.Rand, thorough bool) {
	ec := tss.S256()
	q := ec.Params().N
	type tw struct {
		typ, field, kind string
		elem             int
	}
	tweaks := []tw{{"", "", "", 0},
		{"KGRound1Message", "dlnproof_1", "+1", 5}, {"KGRound1Message", "dlnproof_2", "+1", 0}, {"KGRound1Message", "h1", "other", 0},
		{"KGRound1Message", "paillier_n", "g:shr8", 0}, {"KGRound1Message", "n_tilde", "g:shl8", 0}, {"KGRound1Message", "h2", "other", 0},
		{"KGRound2Message1", "share", "+1", 0}, {"KGRound2Message1", "facProof", "+1", 6}, {"KGRound2Message1", "facProof", "empty", 2},
		{"KGRound2Message2", "de_commitment", "+1", 1}, {"KGRound2Message2", "modProof", "+1", 3}, {"KGRound2Message2", "modProof", "drop-field", 0},
		{"KGRound2Message2", "de_commitment", "drop-field", 0}, {"KGRound1Message", "commitment", "random", 0},
		{"KGRound2Message1", "share", "negq", 0},
		{"KGRound3Message", "paillier_proof", "+1", 4}, {"KGRound3Message", "paillier_proof", "other", 0}, {"KGRound3Message", "paillier_proof", "+1", 12}}
	if !thorough {
		pick := []int{1 + int(r.Seed)%6, 7 + int(r.Seed)%3, 10 + int(r.Seed)%3, 13 + int(r.Seed)%3, 16 + int(r.Seed)%3}
		var t2 []tw
		for _, i := range pick {
			t2 = append(t2, tweaks[i])
		}
		tweaks = t2
	}
	n, th := 3, 1
	for ti, t := range tweaks {
		keys := partyKeys(rng, n, 0, q)
		seed := rng.Int63()
		net := ecdsaKeygenNet(rand.New(rand.NewSource(seed)), n, th, keys, 0)
		dev := (ti + int(r.Seed)) % n
		if t.typ != "" {
			ref := refRunOf(c05Proto{name: "blame-ec-donor", build: func(rr *rand.Rand) *Net { return ecdsaKeygenNet(rr, n, th, partyKeys(rr, n, 0, q), 0) }})
			var donor tss.Message
			for _, m := range ref.Nodes[(dev+1)%n].Emitted {
				if shortType(m.Type()) == t.typ {
					donor = m
				}
			}
			trng := rand.New(rand.NewSource(seed + 1))
			net.Tamper = func(from int, m tss.Message) []tss.Message {
				if from != dev || shortType(m.Type()) != t.typ {
					return []tss.Message{m}
				}
				mutateOnEd = false
				tm, _ := tamperMsg(trng, m, donor, injSpec{Type: t.typ, Field: t.field, Elem: t.elem, Kind: t.kind})
				return []tss.Message{tm}
			}
		}
		net.StopOnError = true
		net.Run(rand.New(rand.NewSource(2)), Strategy{Name: "fifo", Pick: pickFIFO}, 100000)
		if len(net.Panics) > 0 {
			r.Assert(false, "blame/ecdsa-keygen/panic", "no-panic-under-injection", func() string { return fmt.Sprint(t, net.Panics) })
			continue
		}
		ssidList := []*big.Int{ec.Params().P, ec.Params().N, ec.Params().Gx, ec.Params().Gy}
		for _, nd := range net.Nodes {
			ssidList = append(ssidList, new(big.Int).SetBytes(nd.ID.Key))
		}
		ssidList = append(ssidList, big.NewInt(1), big.NewInt(0))
		ssid := common.SHA512_256i(ssidList...).Bytes()
		for i, nd := range net.Nodes {
			if i == dev {
				continue
			}
			r1 := map[int]*ecdsakeygen.KGRound1Message{}
			r21 := map[int]*ecdsakeygen.KGRound2Message1{}
			r22 := map[int]*ecdsakeygen.KGRound2Message2{}
			r3 := map[int]*ecdsakeygen.KGRound3Message{}
			for _, m := range nd.Emitted {
				switch c := m.(tss.ParsedMessage).Content().(type) {
				case *ecdsakeygen.KGRound1Message:
					r1[i] = c
				case *ecdsakeygen.KGRound2Message2:
					r22[i] = c
				}
			}
			for _, d := range net.Delivered {
				if d.To != i {
					continue
				}
				switch c := d.Msg.(tss.ParsedMessage).Content().(type) {
				case *ecdsakeygen.KGRound1Message:
					r1[d.From] = c
				case *ecdsakeygen.KGRound2Message1:
					r21[d.From] = c
				case *ecdsakeygen.KGRound2Message2:
					r22[d.From] = c
				case *ecdsakeygen.KGRound3Message:
					r3[d.From] = c
				}
			}
			if len(r1) != n {
				continue // a round-1 message was refused at delivery (ValidateBasic): the party never ran round 2
			}
			// --- round 2 ---
			var msgs []string
			for j := 0; j < n; j++ {
				c := r1[j]
				msgs = append(msgs, fmt.Sprintf("%d/%s/%s/%s/%s/%s/%s", j, natHex(c.GetPaillierN()), natHex(c.GetNTilde()), natHex(c.GetH1()), natHex(c.GetH2()),
					bytesListHex(c.GetDlnproof_1()), bytesListHex(c.GetDlnproof_2())))
			}
			goRes := "ok pass"
			refused := refusedBeforeStore(nd.Err) // e.g. a round-2 message failing ValidateBasic while the party is in round 2
			if nd.Err != nil && nd.Err.Round() == 2 && !refused {
				goRes = "ok fail culprits=" + culpritSet(net, nd.Err)
			} else if nd.Err != nil && nd.Err.Round() < 2 {
				continue
			}
			if refused && nd.Err.Round() > 2 {
				refused = false // refused in a later round: rounds 2 and 3 were passed and are judged below
			}
			lean := r.model.Call("ec_kg_round2", fmt.Sprint(i), strings.Join(msgs, ";"))
			line := fmt.Sprintf("ec_kg_round2 %d … (%s.%s %s by party %d)", i, t.typ, t.field, t.kind, dev)
			r.count("ec_kg_round2", goRes, true, line)
			r.Traces++
			cmp := lean
			if f := strings.Fields(cmp); len(f) >= 3 && f[1] == "fail" {
				// "ok fail culprits=… <reason>": compare verdict and culprit list
				cmp = strings.Join(f[:3], " ")
			}
			if cmp != goRes {
				r.fail(Failure{Kind: "diff", Key: "blame/ecdsa-keygen-round2/" + t.typ + "." + t.field + "/" + t.kind, Op: line + " args: " + strings.Join(msgs, ";")[:min(400, len(strings.Join(msgs, ";")))], Go: goRes, Lean: lean})
			}
			if goRes != "ok pass" || refused {
				continue
			}
			// --- round 3 ---
			var peers []string
			complete := true
			for j := 0; j < n; j++ {
				if j == i {
					continue
				}
				a, b := r21[j], r22[j]
				if a == nil || b == nil {
					complete = false
					break
				}
				peers = append(peers, fmt.Sprintf("%d/%s/%s/%s/%s/%s/%s", j, natHex(r1[j].GetCommitment()), natHex(r1[j].GetPaillierN()), natsHex(b.GetDeCommitment()),
					bytesListHex(b.GetModProof()), natHex(a.GetShare()), bytesListHex(a.GetFacProof())))
			}
			if !complete {
				continue
			}
			go3 := "ok culprits=_"
			if nd.Err != nil && nd.Err.Round() <= 3 {
				if nd.Err.Round() != 3 || refusedBeforeStore(nd.Err) {
					continue
				}
				go3 = "ok culprits=" + culpritSet(net, nd.Err)
			}
			lean3 := r.model.Call("ec_kg_round3", fmt.Sprint(th), eInt(new(big.Int).SetBytes(nd.ID.Key)), eBytes(ssid),
				natHex(r1[i].GetNTilde()), natHex(r1[i].GetH1()), natHex(r1[i].GetH2()), "0", "0", strings.Join(peers, ";"))
			line3 := fmt.Sprintf("ec_kg_round3 %d … (%s.%s %s by party %d)", i, t.typ, t.field, t.kind, dev)
			r.count("ec_kg_round3", go3, true, line3)
			r.Traces++
			if lean3 != go3 {
				r.fail(Failure{Kind: "diff", Key: "blame/ecdsa-keygen-round3/" + t.typ + "." + t.field + "/" + t.kind, Op: line3, Go: go3, Lean: lean3})
			}
			// --- round 4: the peers' Paillier key proofs against the group key (the sum of everybody's first commitment point)
			if go3 != "ok culprits=_" || len(r3) != n-1 || len(r22) != n {
				continue
			}
			var pub *crypto.ECPoint
			okPub := true
			for j := 0; j < n && okPub; j++ {
				d := r22[j].GetDeCommitment()
				if len(d) < 3 {
					okPub = false
					break
				}
				pt, err := crypto.NewECPoint(ec, new(big.Int).SetBytes(d[1]), new(big.Int).SetBytes(d[2]))
				if err != nil {
					okPub = false
					break
				}
				if pub == nil {
					pub = pt
				} else if pub, err = pub.Add(pt); err != nil {
					okPub = false
				}
			}
			if !okPub || (nd.Err == nil && len(nd.Ends) == 0) {
				continue
			}
			var p4 []string
			for j := 0; j < n; j++ {
				if j != i {
					p4 = append(p4, fmt.Sprintf("%d/%s/%s/%s", j, natHex(r1[j].GetPaillierN()), natHex(net.Nodes[j].ID.Key), natsHex(r3[j].GetPaillierProof())))
				}
			}
			go4 := "ok culprits=_"
			if nd.Err != nil {
				if nd.Err.Round() != 4 || refusedBeforeStore(nd.Err) {
					continue
				}
				go4 = "ok culprits=" + culpritSet(net, nd.Err)
			}
			lean4 := r.model.Call("ec_kg_round4", ePoint(pub), strings.Join(p4, ";"))
			line4 := fmt.Sprintf("ec_kg_round4 %d … (%s.%s %s by party %d)", i, t.typ, t.field, t.kind, dev)
			r.count("ec_kg_round4", go4, true, line4)
			r.Traces++
			if lean4 != go4 {
				r.fail(Failure{Kind: "diff", Key: "blame/ecdsa-keygen-round4/" + t.typ + "." + t.field + "/" + t.kind, Op: line4, Go: go4, Lean: lean4})
			}
		}
	}
}
