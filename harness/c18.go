package main

import (
	"crypto/ecdsa"
	"fmt"
	"math/big"
	"math/rand"
	"strings"

	"github.com/btcsuite/btcd/btcutil/hdkeychain"
	"github.com/btcsuite/btcd/chaincfg"

	"github.com/bnb-chain/tss-lib/v2/crypto"
	"github.com/bnb-chain/tss-lib/v2/crypto/ckd"
	ecdsakeygen "github.com/bnb-chain/tss-lib/v2/ecdsa/keygen"
	ecdsasigning "github.com/bnb-chain/tss-lib/v2/ecdsa/signing"
	"github.com/bnb-chain/tss-lib/v2/tss"
)

func extKey(pub *crypto.ECPoint, depth int, cc []byte) *ckd.ExtendedKey {
	return &ckd.ExtendedKey{
		PublicKey: ecdsa.PublicKey{Curve: tss.S256(), X: pub.X(), Y: pub.Y()},
		Depth:     uint8(depth), ChildIndex: 0, ChainCode: cc, ParentFP: []byte{0, 0, 0, 0},
		Version: chaincfg.MainNetParams.HDPrivateKeyID[:],
	}
}

func init() {
	goOps["ckd_derive"] = func(a []string) string {
		pub := dPoint(tss.S256(), a[0])
		var path []uint32
		if a[3] != "_" {
			for _, s := range strings.Split(a[3], ",") {
				var v uint64
				fmt.Sscan(s, &v)
				path = append(path, uint32(v))
			}
		}
		il, child, err := ckd.DeriveChildKeyFromHierarchy(path, extKey(pub, atoi(a[1]), dBytes(a[2])), tss.S256().Params().N, tss.S256())
		if err != nil {
			return "err"
		}
		return fmt.Sprintf("ok %s %s %d %d %s %s %s", eInt(il), eXY(child.X, child.Y), child.Depth, child.ChildIndex, eBytes(child.ChainCode), eBytes(child.ParentFP), child.String())
	}
	props["C18"] = runC18
}

func runC18(r *Run, rng *rand.Rand, thorough bool) {
	r.Rule = "exact ops: ckd.DeriveChildKeyFromHierarchy vs the Lean BIP32 model (own HMAC-SHA512, SHA-256, RIPEMD-160, base58check, curve arithmetic) on random parents/chain codes and paths of length 0..5 with indices {0,1,2^31-1,2^31,random}, the ordinary/hardened boundary (2^31-1, 2^31, 2^31+1, 2^32-1) at every position of several path shapes, depth 254/255; independent oracle: btcutil hdkeychain public derivation; derive-then-sign runs with the offset; non-trivial = distinct op line; direct assertions: child = parent + offset·G, refusals, signature verifies under the child key and not under the parent, stored shares unchanged"
	S := tss.S256()
	q := S.Params().N
	idxs := []uint32{0, 1, 1<<31 - 1, 1 << 31, 7, uint32(rng.Int31())}
	n := 12
	if thorough {
		n = 120
	}
	// parents whose X coordinate has leading zero bytes (the SEC1 encoding must still be 33 bytes)
	var shortX []*crypto.ECPoint
	for u := int64(1); len(shortX) < 3 && u < 5000; u++ {
		if pt := crypto.ScalarBaseMult(S, bi(u+int64(rng.Intn(3)))); pt.X().BitLen() <= 248 {
			shortX = append(shortX, pt)
		}
	}
	// directed: the boundary between ordinary and hardened indices at every position of short and long paths
	{
		parent := crypto.ScalarBaseMult(S, new(big.Int).Add(below(rng, new(big.Int).Sub(q, bi(2))), bi(1)))
		cc := randBytes(rng, 32)
		for _, b := range []uint64{1<<31 - 1, 1 << 31, 1<<31 + 1, 1<<31 + 44, 1<<32 - 1} {
			for _, tmpl := range [][]int64{{-1}, {0, -1}, {-1, 0}, {44, 60, -1, 0, 5}, {1, 2, 3, 4, -1}} {
				path := make([]string, len(tmpl))
				for j, v := range tmpl {
					if v < 0 {
						path[j] = fmt.Sprint(b)
					} else {
						path[j] = fmt.Sprint(v)
					}
				}
				ps := strings.Join(path, ",")
				g, _, _ := r.Do("ckd.DeriveChildKeyFromHierarchy/index-boundary", true, "ckd_derive", ePoint(parent), "0", eBytes(cc), ps)
				if b >= 1<<31 {
					r.Assert(g == "err", "ckd/hardened", "hardened-index-refused", func() string { return ps + " " + g[:min(len(g), 60)] })
				} else {
					r.Assert(strings.HasPrefix(g, "ok "), "ckd/last-ordinary-index", "index-2^31-1-derives", func() string { return ps + " " + g[:min(len(g), 60)] })
				}
			}
		}
	}
	for i := 0; i < n+len(shortX); i++ {
		parent := crypto.ScalarBaseMult(S, new(big.Int).Add(below(rng, new(big.Int).Sub(q, bi(2))), bi(1)))
		if i >= n {
			parent = shortX[i-n]
		}
		cc := randBytes(rng, 32)
		plen := i % 6
		if i >= n {
			plen = 1 + i%3
		}
		path := make([]string, plen)
		var p32 []uint32
		hardened := false
		for j := range path {
			v := idxs[rng.Intn(len(idxs))]
			if v == 1<<31 && i%4 != 0 {
				v = 3
			}
			if v >= 1<<31 {
				hardened = true
			}
			path[j] = fmt.Sprint(v)
			p32 = append(p32, v)
		}
		ps := "_"
		if plen > 0 {
			ps = strings.Join(path, ",")
		}
		depth := 0
		if i >= n {
			hardened = false
			for j := range p32 {
				p32[j] = uint32(rng.Int31n(1 << 20))
				path[j] = fmt.Sprint(p32[j])
			}
			ps = strings.Join(path, ",")
		} else if i%7 == 3 {
			depth = 254
		}
		if i < n && i%7 == 5 {
			depth = 255
		}
		g, _, _ := r.Do("ckd.DeriveChildKeyFromHierarchy", true, "ckd_derive", ePoint(parent), fmt.Sprint(depth), eBytes(cc), ps)
		if hardened {
			r.Assert(g == "err", "ckd/hardened", "hardened-index-refused", func() string { return ps + " " + g })
			continue
		}
		if depth+plen > 255 {
			r.Assert(g == "err", "ckd/max-depth", "excessive-depth-refused", func() string { return fmt.Sprint(depth, ps, g) })
			continue
		}
		if !strings.HasPrefix(g, "ok ") {
			continue // IL ≥ q or IL = 0: probability 2^-127
		}
		f := strings.Fields(g)
		il := dInt(f[1])
		child := dPoint(S, f[2])
		// child = parent + offset·G
		want := parent
		if il.Sign() != 0 {
			var err error
			want, err = parent.Add(crypto.ScalarBaseMult(S, il))
			r.Assert(err == nil, "ckd/offset", "child=parent+offset*G", nil)
		}
		if want != nil {
			r.Assert(want.Equals(child), "ckd/offset", "child=parent+offset*G", func() string { return g[:80] })
		}
		// independent BIP32 implementation (btcutil hdkeychain), only from depth 0 (its API builds from a serialised key)
		if depth == 0 {
			xk := hdkeychain.NewExtendedKey(chaincfg.MainNetParams.HDPublicKeyID[:], serializeCompressedPub(parent), cc, []byte{0, 0, 0, 0}, 0, 0, false)
			ok := true
			for _, v := range p32 {
				var err error
				xk, err = xk.Derive(v)
				if err != nil {
					ok = false
					break
				}
			}
			if ok {
				pk, err := xk.ECPubKey()
				r.Assert(err == nil && pk.X().Cmp(child.X()) == 0 && pk.Y().Cmp(child.Y()) == 0 && eBytes(xk.ChainCode()) == f[5] && int(xk.Depth()) == atoi(f[3]),
					"ckd/bip32-oracle", "matches-independent-bip32-derivation", func() string { return ps })
			}
		}
	}
	// published BIP32 test vector 1, public derivation m/0H is hardened; use the chain m/0'/1 → public child of xpub at m/0'
	// (vector: xpub68Gmy5EdvgibQVfPdqkBBCHxA5htiqg55crXYuXoQRKfDBFA1WEjWgP6LHhwBZeNK1VTsfTFUHCdrfp1bgwQ9xv5ski8PX9rL2dZXvgGDnw → /1 →
	//  xpub6ASuArnXKPbfEwhqN6e3mwBcDTgzisQN1wXN9BJcM47sSikHjJf3UFHKkNAWbWMiGj7Wf5uMash7SyYq527Hqck2AxYysAA7xmALppuCkwQ)
	{
		parentS := "xpub68Gmy5EdvgibQVfPdqkBBCHxA5htiqg55crXYuXoQRKfDBFA1WEjWgP6LHhwBZeNK1VTsfTFUHCdrfp1bgwQ9xv5ski8PX9rL2dZXvgGDnw"
		wantS := "xpub6ASuArnXKPbfEwhqN6e3mwBcDTgzisQN1wXN9BJcM47sSikHjJf3UFHKkNAWbWMiGj7Wf5uMash7SyYq527Hqck2AxYysAA7xmALppuCkwQ"
		pk, err := ckd.NewExtendedKeyFromString(parentS, S)
		if err == nil {
			_, child, err := ckd.DeriveChildKey(1, pk, S)
			r.Assert(err == nil && child.String() == wantS, "ckd/bip32-vector-1", "published-bip32-vector", func() string {
				if child != nil {
					return child.String()
				}
				return fmt.Sprint(err)
			})
			r.Assert(pk.String() == parentS, "ckd/xkey-roundtrip", "extended-key-string-roundtrip", nil)
		} else {
			r.Assert(false, "ckd/bip32-vector-1", "published-bip32-vector", func() string { return err.Error() })
		}
	}
	// derive then sign with the offset: verifies under the child key, not under the parent; stored shares unchanged
	ks := fixtureEcKeys()
	runs := 1
	if thorough {
		runs = 5
	}
	for i := 0; i < runs; i++ {
		cc := randBytes(rng, 32)
		path := []uint32{uint32(rng.Int31n(100)), uint32(rng.Int31n(1 << 30))}
		il, child, err := ckd.DeriveChildKeyFromHierarchy(path[:1+i%2], extKey(ks.keys[0].ECDSAPub, 0, cc), q, S)
		if err != nil {
			continue
		}
		subs := combos(ks.n, ks.t+1)
		sub := subs[rng.Intn(len(subs))]
		// the application adjusts a reloaded copy of the key data
		cp := &ecKeySet{n: ks.n, t: ks.t, pids: ks.pids}
		before := make([]string, len(ks.keys))
		for j, k := range ks.keys {
			before[j] = eInt(k.Xi) + ePoints(k.BigXj) + ePoint(k.ECDSAPub)
			c := k
			c.BigXj = append([]*crypto.ECPoint{}, k.BigXj...)
			cp.keys = append(cp.keys, c)
		}
		childPub := ecdsa.PublicKey{Curve: S, X: child.X, Y: child.Y}
		if err := ecdsasigning.UpdatePublicKeyAndAdjustBigXj(il, cp.keys, &childPub, S); err != nil {
			r.Assert(false, "ckd/adjust", "adjust-succeeds", func() string { return err.Error() })
			continue
		}
		m := new(big.Int).Mod(randInt(rng, 256), q)
		net, out := runEcdsaSigning(rng, cp, sub, m, -1, il, Strategy{Name: "random", Pick: pickRandom}, nil)
		cpt, _ := crypto.NewECPoint(S, child.X, child.Y)
		checkEcdsaSignature(r, "ckd/sign-with-offset", net, out, cpt, m, -1, ks.keys[0].ECDSAPub)
		for j, k := range ks.keys {
			r.Assert(before[j] == eInt(k.Xi)+ePoints(k.BigXj)+ePoint(k.ECDSAPub), "ckd/store-unchanged", "stored-key-shares-unchanged", func() string { return fmt.Sprint("party ", j) })
		}
	}
	_ = ecdsakeygen.LocalPartySaveData{}
}

func serializeCompressedPub(p *crypto.ECPoint) []byte {
	b := make([]byte, 33)
	b[0] = 2
	if p.Y().Bit(0) == 1 {
		b[0] = 3
	}
	p.X().FillBytes(b[1:])
	return b
}
