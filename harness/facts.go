package main

func writeFacts(dir string) error { return nil }
