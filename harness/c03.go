package main

import (
	"crypto/elliptic"
	"fmt"
	"math/big"
	"math/rand"

	"github.com/bnb-chain/tss-lib/v2/crypto"
	"github.com/bnb-chain/tss-lib/v2/tss"
)

func init() { props["C03"] = runC03 }

// the public view of one party's save data, canonicalised
type pubView struct {
	pub    string
	ks     []string
	bigXj  []string
	extras []string
}

func (v pubView) String() string { return fmt.Sprint(v.pub, v.ks, v.bigXj, v.extras) }

// checkSharing asserts the C03 clauses on the save data of all parties of one run
func checkSharing(r *Run, what string, ec elliptic.Curve, t int, xi []*big.Int, shareID []*big.Int, views []pubView, ks [][]*big.Int, bigXj [][]*crypto.ECPoint, pub []*crypto.ECPoint) {
	q := ec.Params().N
	n := len(xi)
	for i := 1; i < n; i++ {
		r.Assert(views[i].String() == views[0].String(), what+"/public-view", "all-parties-hold-identical-public-view", func() string {
			return fmt.Sprintf("party %d differs from party 0", i)
		})
	}
	for i := 0; i < n; i++ {
		// own index in Ks
		idx := -1
		for j, k := range ks[i] {
			if k.Cmp(shareID[i]) == 0 {
				idx = j
			}
		}
		if idx < 0 {
			r.Assert(false, what+"/share-id", "share-id-listed-in-ks", nil)
			continue
		}
		xm := new(big.Int).Mod(xi[i], q)
		if xm.Sign() == 0 {
			continue
		}
		r.Assert(crypto.ScalarBaseMult(ec, xm).Equals(bigXj[i][idx]), what+"/xiG", "share*G=own-public-share-point", func() string { return fmt.Sprintf("party %d", i) })
	}
	// interpolation in the exponent over every (t+1)-subset gives the group key; the secret shares interpolate to one key
	ids := ks[0]
	var first *big.Int
	for _, sub := range combos(n, t+1) {
		sid := make([]*big.Int, len(sub))
		sv := make([]*big.Int, len(sub))
		for a, j := range sub {
			sid[a] = new(big.Int).Mod(ids[j], q)
			// find the party whose ShareID is ids[j]
			for p := 0; p < n; p++ {
				if shareID[p].Cmp(ids[j]) == 0 {
					sv[a] = xi[p]
				}
			}
		}
		sec := lagrangeZero(q, sid, sv)
		if sec == nil || sec.Sign() == 0 {
			r.Assert(false, what+"/interpolate", "t+1-shares-interpolate", nil)
			continue
		}
		if first == nil {
			first = sec
		}
		r.Assert(sec.Cmp(first) == 0, what+"/one-key", "every-t+1-subset-interpolates-to-one-private-key", func() string { return fmt.Sprint(sub) })
		r.Assert(crypto.ScalarBaseMult(ec, sec).Equals(pub[0]), what+"/pub", "interpolated-key*G=group-public-key", func() string { return fmt.Sprint(sub) })
	}
	// public share points lie on one polynomial of degree ≤ t: any t+2 of them are consistent
	if n >= t+2 {
		for _, sub := range combos(n, t+2) {
			// interpolate BigXj[sub[0..t]] at ids[sub[t+1]] in the exponent and compare
			base := sub[:t+1]
			target := sub[t+1]
			acc := (*crypto.ECPoint)(nil)
			ok := true
			for _, j := range base {
				// λ_j(x) = ∏_{m≠j} (x − id_m)/(id_j − id_m)
				num, den := big.NewInt(1), big.NewInt(1)
				for _, m := range base {
					if m == j {
						continue
					}
					num.Mul(num, new(big.Int).Sub(ids[target], ids[m])).Mod(num, q)
					den.Mul(den, new(big.Int).Sub(ids[j], ids[m])).Mod(den, q)
				}
				inv := new(big.Int).ModInverse(den, q)
				if inv == nil {
					ok = false
					break
				}
				l := new(big.Int).Mul(num, inv)
				l.Mod(l, q)
				if l.Sign() == 0 {
					continue
				}
				term := bigXj[0][j].ScalarMult(l)
				if acc == nil {
					acc = term
				} else {
					var err error
					acc, err = acc.Add(term)
					if err != nil {
						ok = false
						break
					}
				}
			}
			if ok && acc != nil {
				r.Assert(acc.Equals(bigXj[0][target]), what+"/degree", "public-share-points-on-one-degree-t-polynomial", func() string { return fmt.Sprint(sub) })
			}
		}
	}
}

func runC03(r *Run, rng *rand.Rand, thorough bool) {
	r.Rule = "whole key-generation runs (EdDSA all (n,t) with n ≤ 4 quick / ≤ 6 thorough; ECDSA with the vendored pre-parameters) under the delivery strategies of C07 and party-key patterns {1..n, random 256-bit, q+odd, leading-zero, q-i} plus key sets with two keys congruent mod q (must be refused without a crash, or else still yield distinct shares); non-trivial = one completed run; direct assertions: identical public view, x_i·G = X_i, every (t+1)-subset interpolates to one key whose public point is the group key, every (t+2)-subset of public share points is consistent with degree ≤ t, Paillier private key matches the recorded modulus"
	maxN := 4
	if thorough {
		maxN = 6
	}
	run := 0
	for n := 2; n <= maxN; n++ {
		for t := 1; t < n; t++ {
			sts := strategies(n, rng)
			for pat := 0; pat < 5; pat++ {
				if !thorough && (n+t+pat)%3 != 0 {
					continue
				}
				st := sts[run%len(sts)]
				run++
				ks, err := genEdKeys(rng, n, t, pat, st)
				r.Evals++
				r.Traces++
				r.Dist["eddsa-keygen/"+st.Name]++
				if err != nil {
					r.Assert(false, "eddsa-keygen/completes/"+st.Name, "keygen-completes", func() string {
						return fmt.Sprintf("n=%d t=%d pat=%d %v panics=%v", n, t, pat, err, ks != nil && len(ks.net.Panics) > 0)
					})
					continue
				}
				r.Distinct++
				xi := make([]*big.Int, n)
				sid := make([]*big.Int, n)
				views := make([]pubView, n)
				kss := make([][]*big.Int, n)
				bx := make([][]*crypto.ECPoint, n)
				pubs := make([]*crypto.ECPoint, n)
				for i, k := range ks.keys {
					xi[i], sid[i], kss[i], bx[i], pubs[i] = k.Xi, k.ShareID, k.Ks, k.BigXj, k.EDDSAPub
					views[i] = pubView{pub: ePoint(k.EDDSAPub), ks: []string{eInts(k.Ks)}, bigXj: []string{ePoints(k.BigXj)}}
				}
				checkSharing(r, "eddsa-keygen", tss.Edwards(), t, xi, sid, views, kss, bx, pubs)
				if len(r.Samples) < 6 {
					r.Samples = append(r.Samples, fmt.Sprintf("eddsa keygen n=%d t=%d keys-pattern=%d schedule=%s events=%d pub=%s", n, t, pat, st.Name, len(ks.net.Events), ePoint(ks.keys[0].EDDSAPub)[:20]))
				}
			}
		}
	}
	// party keys that are distinct integers but congruent modulo the group order: the run must be refused, or
	// else whatever it outputs must still be a (t,n) sharing (it cannot be: two parties would hold one share)
	congruent := func(q *big.Int, n int, k int) []*big.Int {
		keys := []*big.Int{bi(7), new(big.Int).Sub(q, bi(1)), new(big.Int).Add(q, bi(7)), bi(11), new(big.Int).Add(new(big.Int).Lsh(q, 1), bi(11))}
		if k%2 == 1 {
			keys = []*big.Int{new(big.Int).Add(q, bi(3)), bi(5), bi(3), new(big.Int).Add(q, bi(5)), bi(9)}
		}
		return keys[:n]
	}
	distinctModQ := func(q *big.Int, ids []*big.Int) bool {
		seen := map[string]bool{}
		for _, id := range ids {
			k := new(big.Int).Mod(id, q).String()
			if seen[k] {
				return false
			}
			seen[k] = true
		}
		return true
	}
	for k, c := range [][2]int{{3, 1}, {4, 2}, {5, 2}} {
		if !thorough && k > 1 {
			break
		}
		n, t := c[0], c[1]
		q := tss.Edwards().Params().N
		keys := congruent(q, n, k)
		st := strategies(n, rng)[k]
		ks, err := genEdKeysWith(rng, n, t, keys, st)
		r.Evals++
		r.Traces++
		if err != nil {
			r.Dist["eddsa-keygen/congruent-keys-refused"]++
			r.Assert(ks == nil || len(ks.net.Panics) == 0, "eddsa-keygen/congruent-keys-no-crash", "refusal-is-an-error-not-a-crash", func() string { return fmt.Sprint(err) })
			continue
		}
		r.Distinct++
		r.Assert(distinctModQ(q, ks.keys[0].Ks), "eddsa-keygen/congruent-keys-completed", "completed-keygen-has-distinct-share-ids-mod-q", func() string {
			return fmt.Sprintf("n=%d t=%d keys=%s: two parties hold the same share, so only n-1 distinct shares exist", n, t, eInts(keys))
		})
	}
	{
		q := tss.S256().Params().N
		keys := congruent(q, 3, int(r.Seed))
		ks, err := genEcKeysWith(rng, 3, 1, keys, strategies(3, rng)[0])
		r.Evals++
		r.Traces++
		if err != nil {
			r.Dist["ecdsa-keygen/congruent-keys-refused"]++
			r.Assert(ks == nil || len(ks.net.Panics) == 0, "ecdsa-keygen/congruent-keys-no-crash", "refusal-is-an-error-not-a-crash", func() string { return fmt.Sprint(err) })
		} else {
			r.Distinct++
			r.Assert(distinctModQ(q, ks.keys[0].Ks), "ecdsa-keygen/congruent-keys-completed", "completed-keygen-has-distinct-share-ids-mod-q", func() string {
				return fmt.Sprintf("n=3 t=1 keys=%s: two parties hold the same share, so only n-1 distinct shares exist", eInts(keys))
			})
		}
	}
	// ECDSA
	ecCfg := [][2]int{{2, 1}, {3, 1}, {4, 3}}
	if thorough {
		ecCfg = [][2]int{{2, 1}, {3, 1}, {3, 2}, {4, 2}, {5, 2}, {5, 4}}
	}
	for ci, c := range ecCfg {
		n, t := c[0], c[1]
		sts := strategies(n, rng)
		st := sts[(ci+int(r.Seed))%len(sts)]
		ks, err := genEcKeys(rng, n, t, ci+int(r.Seed), st)
		r.Evals++
		r.Traces++
		r.Dist["ecdsa-keygen/"+st.Name]++
		if err != nil {
			r.Assert(false, "ecdsa-keygen/completes/"+st.Name, "keygen-completes", func() string { return fmt.Sprintf("n=%d t=%d %v", n, t, err) })
			continue
		}
		r.Distinct++
		xi := make([]*big.Int, n)
		sid := make([]*big.Int, n)
		views := make([]pubView, n)
		kss := make([][]*big.Int, n)
		bx := make([][]*crypto.ECPoint, n)
		pubs := make([]*crypto.ECPoint, n)
		for i, k := range ks.keys {
			xi[i], sid[i], kss[i], bx[i], pubs[i] = k.Xi, k.ShareID, k.Ks, k.BigXj, k.ECDSAPub
			var pks []*big.Int
			for _, pk := range k.PaillierPKs {
				pks = append(pks, pk.N)
			}
			views[i] = pubView{pub: ePoint(k.ECDSAPub), ks: []string{eInts(k.Ks)}, bigXj: []string{ePoints(k.BigXj)},
				extras: []string{eInts(pks), eInts(k.NTildej), eInts(k.H1j), eInts(k.H2j)}}
		}
		checkSharing(r, "ecdsa-keygen", tss.S256(), t, xi, sid, views, kss, bx, pubs)
		for i, k := range ks.keys {
			idx, _ := k.OriginalIndex()
			for j, o := range ks.keys {
				r.Assert(o.PaillierPKs[idx].N.Cmp(k.PaillierSK.N) == 0, "ecdsa-keygen/paillier", "paillier-sk-matches-recorded-modulus", func() string { return fmt.Sprint(i, j) })
			}
			r.Assert(k.PaillierSK.N.Cmp(new(big.Int).Mul(k.PaillierSK.P, k.PaillierSK.Q)) == 0, "ecdsa-keygen/paillier-pq", "paillier-N=PQ", nil)
		}
		if len(r.Samples) < 10 {
			r.Samples = append(r.Samples, fmt.Sprintf("ecdsa keygen n=%d t=%d schedule=%s events=%d", n, t, st.Name, len(ks.net.Events)))
		}
	}
}
