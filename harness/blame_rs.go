package main

import (
	"fmt"
	"math/big"
	"math/rand"
	"strings"

	"github.com/bnb-chain/tss-lib/v2/crypto"
	ecdsakeygen "github.com/bnb-chain/tss-lib/v2/ecdsa/keygen"
	ecdsaresharing "github.com/bnb-chain/tss-lib/v2/ecdsa/resharing"
	eddsakeygen "github.com/bnb-chain/tss-lib/v2/eddsa/keygen"
	eddsaresharing "github.com/bnb-chain/tss-lib/v2/eddsa/resharing"
	"github.com/bnb-chain/tss-lib/v2/tss"
)

// rsJudge re-judges every new member of a finished EdDSA resharing run with the Lean model of its side
// (Core/BlameRs.newMember): from the fields it received from each old member the model predicts the acknowledgement
// (and the share it will save) or the error's culprit list; the Go party must have done exactly that.
func rsJudge(r *Run, net *Net, nOld, newT int, what string) {
	rsJudgeOn(r, net, nOld, newT, what, "ed")
}

// rsJudgeOn: the same for either curve. ECDSA new members run the model with cofactor 1 on secp256k1 (op
// rs_new_member_ec); their round 4 first checks the other new members' parameters (BlameEc.rsRound4Params, tied in
// C05) — an error of that part is not a verdict of the part modelled here and is skipped.
func rsJudgeOn(r *Run, net *Net, nOld, newT int, what, curve string) {
	op := "rs_new_member"
	if curve == "ec" {
		op = "rs_new_member_ec"
	}
	for i := nOld; i < len(net.Nodes); i++ {
		nd := net.Nodes[i]
		type in struct {
			px, py, c, share []byte
			d                [][]byte
		}
		got := map[int]*in{}
		for _, d := range net.Delivered {
			if d.To != i || d.From >= nOld {
				continue
			}
			p := got[d.From]
			if p == nil {
				p = &in{}
				got[d.From] = p
			}
			switch c := d.Msg.(tss.ParsedMessage).Content().(type) {
			case *eddsaresharing.DGRound1Message:
				p.px, p.py, p.c = c.GetEddsaPubX(), c.GetEddsaPubY(), c.GetVCommitment()
			case *eddsaresharing.DGRound3Message1:
				p.share = c.GetShare()
			case *eddsaresharing.DGRound3Message2:
				p.d = c.GetVDecommitment()
			case *ecdsaresharing.DGRound1Message:
				p.px, p.py, p.c = c.GetEcdsaPubX(), c.GetEcdsaPubY(), c.GetVCommitment()
			case *ecdsaresharing.DGRound3Message1:
				p.share = c.GetShare()
			case *ecdsaresharing.DGRound3Message2:
				p.d = c.GetVDecommitment()
			}
		}
		// the round-1 verdict needs every old member's first message; round 4 needs all three
		var msgs []string
		complete, haveR1 := true, true
		for j := 0; j < nOld; j++ {
			p := got[j]
			if p == nil || p.c == nil {
				haveR1 = false
				break
			}
			if p.share == nil || p.d == nil {
				complete = false
			}
			msgs = append(msgs, fmt.Sprintf("%d/%s/%s/%s/%s/%s", j, natHex(p.px), natHex(p.py), natHex(p.c), natsHex(p.d), natHex(p.share)))
		}
		if !haveR1 {
			continue
		}
		goRes := ""
		switch {
		case refusedBeforeStore(nd.Err):
			continue
		case refusedBeforeStore(nd.Err):
			continue
		case nd.Err != nil && nd.Err.Round() == 4 && curve == "ec" && rsParamsError(nd.Err):
			continue
		case nd.Err != nil && (nd.Err.Round() == 1 || nd.Err.Round() == 4):
			goRes = "ok fail culprits=" + culpritSet(net, nd.Err)
		case nd.Err != nil:
			continue
		case len(nd.Ends) == 1 && complete:
			switch k := nd.Ends[0].(type) {
			case *eddsakeygen.LocalPartySaveData:
				goRes = "ok pass xi=" + eInt(k.Xi)
			case *ecdsakeygen.LocalPartySaveData:
				goRes = "ok pass xi=" + eInt(k.Xi)
			}
		default:
			continue // stopped for another reason (a peer's failure ended the run)
		}
		if nd.Err != nil && nd.Err.Round() == 4 && !complete {
			continue
		}
		if nd.Err != nil && nd.Err.Round() == 1 {
			// a round-1 failure is judged from the announcements alone: give the model empty round-3 material
			for k := range msgs {
				f := strings.Split(msgs[k], "/")
				msgs[k] = strings.Join([]string{f[0], f[1], f[2], f[3], "_", "-"}, "/")
			}
		}
		lean := r.model.Call(op, "1", fmt.Sprint(newT), eInt(new(big.Int).SetBytes(nd.ID.Key)), fmt.Sprint(i), strings.Join(msgs, ";"))
		line := fmt.Sprintf("%s new member %d (%s)", op, i-nOld, what)
		r.count(op, goRes, true, line)
		r.Traces++
		cmp := lean
		if f := strings.Fields(cmp); len(f) >= 3 && f[1] == "fail" {
			cmp = strings.Join(f[:3], " ")
		}
		if cmp != goRes {
			r.fail(Failure{Kind: "diff", Key: "blame/" + curve + "dsa-resharing-new-member/" + what, Op: line + " args: " + strings.Join(msgs, ";")[:min(500, len(strings.Join(msgs, ";")))], Go: goRes, Lean: lean})
		}
	}
}

// blameCorrespondenceRs: tampered EdDSA resharing runs (3 old → 3 new, one old member altering one field) judged by rsJudge
func blameCorrespondenceRs(r *Run, rng *rand.Rand, thorough bool) {
	q := tss.Edwards().Params().N
	ks, err := genEdKeys(rng, 3, 1, 0, Strategy{Name: "fifo", Pick: pickFIFO})
	if err != nil {
		return
	}
	type tw struct {
		typ, field, kind string
		elem             int
	}
	tweaks := []tw{{"", "", "", 0}, {"DGRound3Message1", "share", "+1", 0}, {"DGRound3Message1", "share", "negq", 0}, {"DGRound3Message2", "v_decommitment", "+1", 1},
		{"DGRound3Message2", "v_decommitment", "drop-field", 0}, {"DGRound1Message", "v_commitment", "random", 0}, {"DGRound1Message", "eddsa_pub_x", "+1", 0},
		{"DGRound1Message", "eddsa_pub_y", "other", 0}, {"DGRound3Message2", "v_decommitment", "empty", 2}}
	if !thorough {
		tweaks = []tw{tweaks[0], tweaks[1+int(r.Seed)%2], tweaks[3+int(r.Seed)%3], tweaks[6+int(r.Seed)%2]}
	}
	_ = q
	for ti, t := range tweaks {
		newPIDs := makePIDs([]*big.Int{big.NewInt(9201), big.NewInt(9202), big.NewInt(9203)}, "N")
		net := eddsaResharingNet(rng, cloneEdKeys(ks.keys), ks.pids, 1, newPIDs, 1)
		dev := (ti + int(r.Seed)) % 3
		if t.typ != "" {
			// donor for "other": the same field of a resharing of another key
			var donor tss.Message
			if t.kind == "other" {
				if k2, err := genEdKeys(rng, 3, 1, 1, Strategy{Name: "fifo", Pick: pickFIFO}); err == nil {
					ref := eddsaResharingNet(rng, cloneEdKeys(k2.keys), k2.pids, 1, newPIDs, 1)
					ref.Run(rand.New(rand.NewSource(1)), Strategy{Name: "fifo", Pick: pickFIFO}, 100000)
					for _, m := range ref.Nodes[dev].Emitted {
						if shortType(m.Type()) == t.typ {
							donor = m
						}
					}
				}
			}
			trng := rand.New(rand.NewSource(rng.Int63()))
			net.Tamper = func(from int, m tss.Message) []tss.Message {
				if from != dev || shortType(m.Type()) != t.typ {
					return []tss.Message{m}
				}
				mutateOnEd = true
				tm, _ := tamperMsg(trng, m, donor, injSpec{Type: t.typ, Field: t.field, Elem: t.elem, Kind: t.kind})
				return []tss.Message{tm}
			}
		}
		net.StopOnError = true
		net.Run(rand.New(rand.NewSource(2)), Strategy{Name: "fifo", Pick: pickFIFO}, 100000)
		if len(net.Panics) > 0 {
			r.Assert(false, "blame/eddsa-resharing/panic", "no-panic-under-injection", func() string { return fmt.Sprint(t, net.Panics) })
			continue
		}
		rsJudge(r, net, 3, 1, fmt.Sprintf("%s.%s %s by old member %d", t.typ, t.field, t.kind, dev))
	}
}

var _ = crypto.ScalarBaseMult

// rsParamsError: an error of the first part of an ECDSA new member's round 4 (the other new members' parameters)
func rsParamsError(e *tss.Error) bool {
	for _, w := range []string{"dln proof verification failed", "h1j and h2j were equal", "already used by another party"} {
		if strings.Contains(e.Error(), w) {
			return true
		}
	}
	return false
}

// blameCorrespondenceRsEcShares: tampered ECDSA resharing runs (3 old → 3 new, proofs off, one old member altering one
// field of what it sends to the new members) judged by rsJudgeOn
func blameCorrespondenceRsEcShares(r *Run, rng *rand.Rand, thorough bool) {
	eks := fixtureEcKeys()
	type tw struct {
		typ, field, kind string
		elem             int
	}
	tweaks := []tw{{"", "", "", 0}, {"DGRound3Message1", "share", "+1", 0}, {"DGRound3Message1", "share", "negq", 0}, {"DGRound3Message2", "v_decommitment", "+1", 1},
		{"DGRound3Message2", "v_decommitment", "drop-field", 0}, {"DGRound1Message", "v_commitment", "random", 0}, {"DGRound1Message", "ecdsa_pub_x", "+1", 0},
		{"DGRound1Message", "ecdsa_pub_y", "negp", 0}, {"DGRound3Message2", "v_decommitment", "empty", 2}}
	if !thorough {
		tweaks = []tw{tweaks[1+int(r.Seed)%2], tweaks[3+int(r.Seed)%3], tweaks[6+int(r.Seed)%2]}
	}
	nOld := 3
	for ti, t := range tweaks {
		keys := make([]ecdsakeygen.LocalPartySaveData, nOld)
		for i := range keys {
			keys[i] = eks.keys[i]
			keys[i].Xi = new(big.Int).Set(eks.keys[i].Xi)
		}
		newPIDs := makePIDs([]*big.Int{big.NewInt(9401), big.NewInt(9402), big.NewInt(9403)}, "N")
		net := ecdsaResharingNet(rng, keys, eks.pids[:nOld], eks.t, newPIDs, 1, false, 0)
		dev := (ti + int(r.Seed)) % 3
		if t.typ != "" {
			trng := rand.New(rand.NewSource(rng.Int63()))
			net.Tamper = func(from int, m tss.Message) []tss.Message {
				if from != dev || shortType(m.Type()) != t.typ {
					return []tss.Message{m}
				}
				mutateOnEd = false
				tm, _ := tamperMsg(trng, m, nil, injSpec{Type: t.typ, Field: t.field, Elem: t.elem, Kind: t.kind})
				return []tss.Message{tm}
			}
		}
		net.StopOnError = true
		net.Run(rand.New(rand.NewSource(2)), Strategy{Name: "fifo", Pick: pickFIFO}, 300000)
		if len(net.Panics) > 0 {
			r.Assert(false, "blame/ecdsa-resharing/panic", "no-panic-under-injection", func() string { return fmt.Sprint(t, net.Panics) })
			continue
		}
		rsJudgeOn(r, net, nOld, 1, fmt.Sprintf("%s.%s %s by old member %d", t.typ, t.field, t.kind, dev), "ec")
	}
}
