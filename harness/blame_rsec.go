package main

import (
	"fmt"
	"math/big"
	"math/rand"
	"strings"

	ecdsakeygen "github.com/bnb-chain/tss-lib/v2/ecdsa/keygen"
	ecdsaresharing "github.com/bnb-chain/tss-lib/v2/ecdsa/resharing"
	"github.com/bnb-chain/tss-lib/v2/tss"
)

// blameCorrespondenceRsEc re-judges, with the Lean model BlameEc.rsRound4Params, what each new member of an ECDSA
// resharing concludes about the Paillier / ring-Pedersen parameters announced by the other new members
// (round 4, first part): "continue" or the error's culprit list, in runs where one new member altered one field of
// its DGRound2Message1.
func blameCorrespondenceRsEc(r *Run, rng *rand.Rand, thorough bool) {
	eks := fixtureEcKeys()
	type tw struct {
		typ, field, kind string
		elem             int
	}
	tweaks := []tw{{"", "", "", 0},
		{"DGRound2Message1", "dlnproof_1", "+1", 5}, {"DGRound2Message1", "dlnproof_2", "+1", 0}, {"DGRound2Message1", "modProof", "+1", 3},
		{"DGRound2Message1", "modProof", "drop-field", 0}, {"DGRound2Message1", "h1", "other", 0}, {"DGRound2Message1", "h2", "other", 0},
		{"DGRound2Message1", "paillier_n", "+1", 0}, {"DGRound2Message1", "n_tilde", "g:shl8", 0},
		{"DGRound4Message1", "facProof", "+1", 6}, {"DGRound4Message1", "facProof", "drop-field", 0}, {"DGRound4Message1", "facProof", "+1", 0}}
	if !thorough {
		tweaks = []tw{tweaks[1+int(r.Seed)%3], tweaks[4+int(r.Seed)%5], tweaks[9+int(r.Seed)%3]}
	}
	nOld := 3
	for ti, t := range tweaks {
		keys := make([]ecdsakeygen.LocalPartySaveData, nOld)
		for i := range keys {
			keys[i] = eks.keys[i]
			keys[i].Xi = new(big.Int).Set(eks.keys[i].Xi)
		}
		newPIDs := makePIDs([]*big.Int{big.NewInt(9301), big.NewInt(9302), big.NewInt(9303)}, "N")
		seed := rng.Int63()
		net := ecdsaResharingNet(rand.New(rand.NewSource(seed)), keys, eks.pids[:nOld], eks.t, newPIDs, 1, true, 1)
		dev := nOld + (ti+int(r.Seed))%3
		if t.typ != "" {
			// donor for "other": the same field of another new member in an identically seeded reference run
			var donor tss.Message
			if t.kind == "other" {
				k2 := make([]ecdsakeygen.LocalPartySaveData, nOld)
				for i := range k2 {
					k2[i] = eks.keys[i]
					k2[i].Xi = new(big.Int).Set(eks.keys[i].Xi)
				}
				ref := ecdsaResharingNet(rand.New(rand.NewSource(seed)), k2, eks.pids[:nOld], eks.t, newPIDs, 1, true, 1)
				ref.Run(rand.New(rand.NewSource(1)), Strategy{Name: "fifo", Pick: pickFIFO}, 300000)
				other := nOld + (dev-nOld+1)%3
				for _, m := range ref.Nodes[other].Emitted {
					if shortType(m.Type()) == t.typ {
						donor = m
					}
				}
			}
			trng := rand.New(rand.NewSource(seed + 1))
			net.Tamper = func(from int, m tss.Message) []tss.Message {
				if from != dev || shortType(m.Type()) != t.typ {
					return []tss.Message{m}
				}
				mutateOnEd = false
				tm, _ := tamperMsg(trng, m, donor, injSpec{Type: t.typ, Field: t.field, Elem: t.elem, Kind: t.kind})
				return []tss.Message{tm}
			}
		}
		net.StopOnError = true
		net.Run(rand.New(rand.NewSource(2)), Strategy{Name: "fifo", Pick: pickFIFO}, 300000)
		if len(net.Panics) > 0 {
			r.Assert(false, "blame/ecdsa-resharing/panic", "no-panic-under-injection", func() string { return fmt.Sprint(t, net.Panics) })
			continue
		}
		for i := nOld; i < len(net.Nodes); i++ {
			if i == dev {
				continue
			}
			nd := net.Nodes[i]
			msgs := map[int]*ecdsaresharing.DGRound2Message1{}
			var ssid []byte
			for _, m := range nd.Emitted {
				if c, ok := m.(tss.ParsedMessage).Content().(*ecdsaresharing.DGRound2Message1); ok {
					msgs[i-nOld] = c
				}
			}
			for _, d := range net.Delivered {
				if d.To != i {
					continue
				}
				switch c := d.Msg.(tss.ParsedMessage).Content().(type) {
				case *ecdsaresharing.DGRound2Message1:
					msgs[d.From-nOld] = c
				case *ecdsaresharing.DGRound1Message:
					ssid = c.GetSsid()
				}
			}
			if len(msgs) != 3 || ssid == nil {
				continue
			}
			var parts []string
			for j := 0; j < 3; j++ {
				c := msgs[j]
				parts = append(parts, fmt.Sprintf("%d/%s/%s/%s/%s/%s/%s/%s", j, natHex(c.GetPaillierN()), natHex(c.GetNTilde()), natHex(c.GetH1()), natHex(c.GetH2()),
					bytesListHex(c.GetDlnproof_1()), bytesListHex(c.GetDlnproof_2()), bytesListHex(c.GetModProof())))
			}
			goRes := ""
			switch {
			case refusedBeforeStore(nd.Err):
				continue
			case nd.Err != nil && nd.Err.Round() == 4:
				known := false
				for _, w := range []string{"dln proof verification failed", "h1j and h2j were equal", "already used by another party"} {
					known = known || strings.Contains(nd.Err.Error(), w)
				}
				if !known {
					continue // a later part of round 4
				}
				// culprits are new-committee members: node index = nOld + index in the new committee
				goRes = "ok fail culprits=" + strings.ReplaceAll(culpritSetNew(net, nd.Err, nOld), " ", "")
			case nd.Err != nil && nd.Err.Round() < 4:
				continue
			default:
				goRes = "ok pass"
			}
			lean := r.model.Call("ec_rs_round4_params", fmt.Sprint(i-nOld), eBytes(ssid), "0", strings.Join(parts, ";"))
			line := fmt.Sprintf("ec_rs_round4_params new member %d (%s.%s %s by new member %d)", i-nOld, t.typ, t.field, t.kind, dev-nOld)
			r.count("ec_rs_round4_params", goRes, true, line)
			r.Traces++
			cmp := lean
			if f := strings.Fields(cmp); len(f) >= 3 && f[1] == "fail" {
				cmp = strings.Join(f[:3], " ")
			}
			if cmp != goRes {
				r.fail(Failure{Kind: "diff", Key: "blame/ecdsa-resharing-round4-params/" + t.field + "/" + t.kind, Op: line, Go: goRes, Lean: lean})
			}
			// round 5: the other new members' no-small-factor proofs, made for this member
			if nd.Err != nil && nd.Err.Round() < 5 {
				continue
			}
			facs := map[int]*ecdsaresharing.DGRound4Message1{}
			for _, d := range net.Delivered {
				if d.To != i {
					continue
				}
				if c, ok := d.Msg.(tss.ParsedMessage).Content().(*ecdsaresharing.DGRound4Message1); ok {
					facs[d.From-nOld] = c
				}
			}
			if len(facs) != 2 || (nd.Err == nil && len(nd.Ends) == 0) {
				continue
			}
			var fparts []string
			for j := 0; j < 3; j++ {
				if j == i-nOld {
					continue
				}
				fparts = append(fparts, fmt.Sprintf("%d/%s/%s", j, natHex(msgs[j].GetPaillierN()), bytesListHex(facs[j].GetFacProof())))
			}
			own := msgs[i-nOld]
			go5 := "ok pass"
			if nd.Err != nil {
				go5 = "ok fail culprits=" + strings.ReplaceAll(culpritSetNew(net, nd.Err, nOld), " ", "")
			}
			lean5 := r.model.Call("ec_rs_round5_fac", "0", fmt.Sprint(i-nOld), eBytes(ssid), natHex(own.GetNTilde()), natHex(own.GetH1()), natHex(own.GetH2()), strings.Join(fparts, ";"))
			line5 := fmt.Sprintf("ec_rs_round5_fac new member %d (%s.%s %s by new member %d)", i-nOld, t.typ, t.field, t.kind, dev-nOld)
			r.count("ec_rs_round5_fac", go5, true, line5)
			r.Dist["ec_rs_round5_fac/"+strings.Fields(go5)[1]]++
			r.Traces++
			cmp5 := lean5
			if f := strings.Fields(cmp5); len(f) >= 3 && f[1] == "fail" {
				cmp5 = strings.Join(f[:3], " ")
			}
			if cmp5 != go5 {
				r.fail(Failure{Kind: "diff", Key: "blame/ecdsa-resharing-round5-fac/" + t.field + "/" + t.kind, Op: line5, Go: go5, Lean: lean5})
			}
		}
	}
}

// culprits as indices within the new committee (nodes nOld…); a culprit that is not a new member is printed as "old<k>"
func culpritSetNew(net *Net, e *tss.Error, nOld int) string {
	var cs []string
	for _, c := range e.Culprits() {
		for k, o := range net.Nodes {
			if c != nil && string(o.ID.Key) == string(c.Key) {
				if k >= nOld {
					cs = append(cs, fmt.Sprint(k-nOld))
				} else {
					cs = append(cs, fmt.Sprintf("old%d", k))
				}
			}
		}
	}
	if len(cs) == 0 {
		return "_"
	}
	sortStrings(cs)
	return strings.Join(cs, ",")
}
