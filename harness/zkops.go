package main

import (
	"fmt"
	"math/big"
	"strings"

	"github.com/bnb-chain/tss-lib/v2/crypto"
	"github.com/bnb-chain/tss-lib/v2/crypto/dlnproof"
	"github.com/bnb-chain/tss-lib/v2/crypto/facproof"
	"github.com/bnb-chain/tss-lib/v2/crypto/modproof"
	"github.com/bnb-chain/tss-lib/v2/crypto/mta"
	"github.com/bnb-chain/tss-lib/v2/crypto/paillier"
	"github.com/bnb-chain/tss-lib/v2/crypto/schnorr"
)

func facFromInts(v []*big.Int) *facproof.ProofFac {
	return &facproof.ProofFac{P: v[0], Q: v[1], A: v[2], B: v[3], T: v[4], Sigma: v[5], Z1: v[6], Z2: v[7], W1: v[8], W2: v[9], V: v[10]}
}
func facToInts(p *facproof.ProofFac) []*big.Int {
	return []*big.Int{p.P, p.Q, p.A, p.B, p.T, p.Sigma, p.Z1, p.Z2, p.W1, p.W2, p.V}
}
func rangeFromInts(v []*big.Int) *mta.RangeProofAlice {
	return &mta.RangeProofAlice{Z: v[0], U: v[1], W: v[2], S: v[3], S1: v[4], S2: v[5]}
}
func rangeToInts(p *mta.RangeProofAlice) []*big.Int {
	return []*big.Int{p.Z, p.U, p.W, p.S, p.S1, p.S2}
}
func bobFromInts(v []*big.Int) *mta.ProofBob {
	return &mta.ProofBob{Z: v[0], ZPrm: v[1], T: v[2], V: v[3], W: v[4], S: v[5], S1: v[6], S2: v[7], T1: v[8], T2: v[9]}
}
func bobToInts(p *mta.ProofBob) []*big.Int {
	return []*big.Int{p.Z, p.ZPrm, p.T, p.V, p.W, p.S, p.S1, p.S2, p.T1, p.T2}
}
func dlnFrom(al, t []*big.Int) *dlnproof.Proof {
	p := &dlnproof.Proof{}
	copy(p.Alpha[:], al)
	copy(p.T[:], t)
	return p
}
func modFrom(w *big.Int, xs []*big.Int, a, b *big.Int, zs []*big.Int) *modproof.ProofMod {
	p := &modproof.ProofMod{W: w, A: a, B: b}
	copy(p.X[:], xs)
	copy(p.Z[:], zs)
	return p
}

func init() {
	goOps["schnorr_verify"] = func(a []string) string {
		c := curveByTag(a[0])
		pf := &schnorr.ZKProof{Alpha: dPoint(c, a[3]), T: dInt(a[4])}
		return verdictStr(pf.Verify(dBytes(a[1]), dPoint(c, a[2])))
	}
	goOps["schnorrv_verify"] = func(a []string) string {
		c := curveByTag(a[0])
		pf := &schnorr.ZKVProof{Alpha: dPoint(c, a[4]), T: dInt(a[5]), U: dInt(a[6])}
		return verdictStr(pf.Verify(dBytes(a[1]), dPoint(c, a[2]), dPoint(c, a[3])))
	}
	goOps["dln_verify"] = func(a []string) string {
		return verdictStr(dlnFrom(dInts(a[0]), dInts(a[1])).Verify(dInt(a[2]), dInt(a[3]), dInt(a[4])))
	}
	goOps["dln_unmarshal"] = func(a []string) string {
		ints := dInts(a[0])
		bzs := make([][]byte, len(ints))
		for i, z := range ints {
			bzs[i] = z.Bytes()
		}
		pf, err := dlnproof.UnmarshalDLNProof(bzs)
		if err != nil {
			return "err"
		}
		return "ok " + eInts(pf.Alpha[:]) + " " + eInts(pf.T[:])
	}
	goOps["mod_verify"] = func(a []string) string {
		pf := modFrom(dInt(a[1]), dInts(a[2]), dInt(a[3]), dInt(a[4]), dInts(a[5]))
		return verdictStr(pf.Verify(dBytes(a[0]), dInt(a[6])))
	}
	goOps["fac_verify"] = func(a []string) string {
		c := curveByTag(a[0])
		return withTimeout(func() string {
			return verdictStr(facFromInts(dInts(a[6])).Verify(dBytes(a[1]), c, dInt(a[2]), dInt(a[3]), dInt(a[4]), dInt(a[5])))
		})
	}
	goOps["range_verify"] = func(a []string) string {
		c := curveByTag(a[0])
		pk := &paillier.PublicKey{N: dInt(a[1])}
		return verdictStr(rangeFromInts(dInts(a[6])).Verify(c, pk, dInt(a[2]), dInt(a[3]), dInt(a[4]), dInt(a[5])))
	}
	goOps["bob_verify"] = func(a []string) string {
		c := curveByTag(a[0])
		pk := &paillier.PublicKey{N: dInt(a[2])}
		pf := bobFromInts(dInts(a[8]))
		if a[9] == "nil" {
			return verdictStr(pf.Verify(dBytes(a[1]), c, pk, dInt(a[3]), dInt(a[4]), dInt(a[5]), dInt(a[6]), dInt(a[7])))
		}
		wc := &mta.ProofBobWC{ProofBob: pf, U: dPoint(c, a[10])}
		return verdictStr(wc.Verify(dBytes(a[1]), c, pk, dInt(a[3]), dInt(a[4]), dInt(a[5]), dInt(a[6]), dInt(a[7]), dPoint(c, a[9])))
	}
	goOps["wire_roundtrip"] = func(a []string) string {
		// the proof is rebuilt from its components, serialised with its own Bytes() and parsed back
		parts := dInts(a[0])
		toSlice := func(n int, get func(i int) []byte) [][]byte {
			o := make([][]byte, n)
			for i := range o {
				o[i] = get(i)
			}
			return o
		}
		var out []*big.Int
		var err error
		switch atoi(a[1]) {
		case mta.RangeProofAliceBytesParts:
			if len(parts) != mta.RangeProofAliceBytesParts {
				return "err"
			}
			bz := rangeFromInts(parts).Bytes()
			var p *mta.RangeProofAlice
			p, err = mta.RangeProofAliceFromBytes(toSlice(len(bz), func(i int) []byte { return bz[i] }))
			if err == nil {
				out = rangeToInts(p)
			}
		case mta.ProofBobBytesParts:
			if len(parts) != mta.ProofBobBytesParts {
				return "err"
			}
			bz := bobFromInts(parts).Bytes()
			var p *mta.ProofBob
			p, err = mta.ProofBobFromBytes(toSlice(len(bz), func(i int) []byte { return bz[i] }))
			if err == nil {
				out = bobToInts(p)
			}
		case mta.ProofBobWCBytesParts:
			// a[2] = curve tag; the last two components are the coordinates of U
			if len(parts) != mta.ProofBobWCBytesParts || len(a) < 3 {
				return "err"
			}
			ec := curveByTag(a[2])
			u := crypto.NewECPointNoCurveCheck(ec, parts[10], parts[11])
			bz := (&mta.ProofBobWC{ProofBob: bobFromInts(parts[:10]), U: u}).Bytes()
			var p *mta.ProofBobWC
			p, err = mta.ProofBobWCFromBytes(ec, toSlice(len(bz), func(i int) []byte { return bz[i] }))
			if err == nil {
				out = append(bobToInts(p.ProofBob), p.U.X(), p.U.Y())
			}
		case facproof.ProofFacBytesParts:
			if len(parts) != facproof.ProofFacBytesParts {
				return "err"
			}
			bz := facFromInts(parts).Bytes()
			var p *facproof.ProofFac
			p, err = facproof.NewProofFromBytes(toSlice(len(bz), func(i int) []byte { return bz[i] }))
			if err == nil {
				out = facToInts(p)
			}
		case modproof.ProofModBytesParts:
			if len(parts) != modproof.ProofModBytesParts {
				return "err"
			}
			pm := &modproof.ProofMod{W: parts[0], A: parts[modproof.Iterations+1], B: parts[modproof.Iterations+2]}
			copy(pm.X[:], parts[1:modproof.Iterations+1])
			copy(pm.Z[:], parts[modproof.Iterations+3:])
			bz := pm.Bytes()
			var p *modproof.ProofMod
			p, err = modproof.NewProofFromBytes(toSlice(len(bz), func(i int) []byte { return bz[i] }))
			if err == nil {
				out = append(append(append([]*big.Int{p.W}, p.X[:]...), p.A, p.B), p.Z[:]...)
			}
		default:
			return "bad-harness-input"
		}
		if err != nil {
			return "err"
		}
		return "ok " + eInts(out)
	}
}

var _ = strings.Split
var _ = crypto.ScalarBaseMult

// maskDeficit: the responses of the sigma protocols are witness·challenge plus a mask drawn below a public bound; a
// response more than 64 bits shorter than that bound (probability 2^-64 for an honest prover) means the mask does not
// cover the witness. Returns a description of the first such response, or "".
func maskDeficit(sys string, pf []*big.Int, qBits int) string {
	const nt = 2048 // bit length of every ring-Pedersen / Paillier modulus in use
	type want struct {
		idx, bits int
		name      string
	}
	var ws []want
	switch sys {
	case "range":
		ws = []want{{4, 3 * qBits, "s1 (mask alpha < q^3)"}, {5, 3*qBits + nt, "s2 (mask gamma < q^3·Ñ)"}}
	case "bob", "bobwc":
		ws = []want{{6, 3 * qBits, "s1 (mask alpha < q^3)"}, {7, 3*qBits + nt, "s2 (mask rho' < q^3·Ñ)"}, {8, 7 * qBits, "t1 (mask gamma < q^7)"}, {9, 3*qBits + nt, "t2 (mask tau < q^3·Ñ)"}}
	case "fac":
		ws = []want{{6, 3*qBits + nt/2, "z1 (mask alpha < q^3·sqrt(N0))"}, {7, 3*qBits + nt/2, "z2 (mask beta < q^3·sqrt(N0))"},
			{8, 3*qBits + nt, "w1 (mask x < q^3·N̂)"}, {9, 3*qBits + nt, "w2 (mask y < q^3·N̂)"}, {10, 3*qBits + 2*nt, "v (mask r < q^3·N̂·N0)"}}
	}
	for _, w := range ws {
		if w.idx < len(pf) && pf[w.idx].BitLen() < w.bits-72 {
			return fmt.Sprintf("%s has %d bits, its mask has about %d", w.name, pf[w.idx].BitLen(), w.bits)
		}
	}
	return ""
}
