package main

import (
	"crypto/elliptic"
	"encoding/json"
	"fmt"
	"math/big"
	"math/rand"
	"os"
	"path/filepath"
	"sort"
	"strconv"
	"strings"

	"github.com/bnb-chain/tss-lib/v2/crypto"
	"github.com/bnb-chain/tss-lib/v2/ecdsa/keygen"
	"github.com/bnb-chain/tss-lib/v2/tss"
)

var repoDir = func() string {
	if d := os.Getenv("VERIF_REPO"); d != "" {
		return d
	}
	return "/repo"
}()

func curveByTag(tag string) elliptic.Curve {
	if tag == "ed" {
		return tss.Edwards()
	}
	return tss.S256()
}

var curveTags = []string{"s256", "ed"}

func ePoint(p *crypto.ECPoint) string {
	if p == nil {
		return "nil"
	}
	return eInt(p.X()) + ":" + eInt(p.Y())
}

func eXY(x, y *big.Int) string { return eInt(x) + ":" + eInt(y) }

func ePoints(ps []*crypto.ECPoint) string {
	if len(ps) == 0 {
		return "_"
	}
	out := make([]string, len(ps))
	for i, p := range ps {
		out[i] = ePoint(p)
	}
	return strings.Join(out, ",")
}

// dPoint builds a point WITHOUT the curve check (the op under test does its own checking)
func dPoint(c elliptic.Curve, s string) *crypto.ECPoint {
	f := strings.Split(s, ":")
	return crypto.NewECPointNoCurveCheck(c, dInt(f[0]), dInt(f[1]))
}

func dPoints(c elliptic.Curve, s string) []*crypto.ECPoint {
	if s == "_" {
		return []*crypto.ECPoint{}
	}
	fs := strings.Split(s, ",")
	out := make([]*crypto.ECPoint, len(fs))
	for i, f := range fs {
		out[i] = dPoint(c, f)
	}
	return out
}

func atoi(s string) int {
	n, _ := strconv.Atoi(s)
	return n
}

// coinReader is a scripted io.Reader: crypto/rand.Int(reader, 2^bits-1) reads ceil(bits/8) bytes, masks
// the top bits and retries when the value is ≥ max; pushing a value < 2^bits-1 padded to that width makes
// the sampler return exactly that value.
type coinReader struct {
	buf   []byte
	rng   *rand.Rand // after the script is exhausted
	Drawn int
}

func (c *coinReader) push(v *big.Int, bits int) {
	k := (bits + 7) / 8
	b := v.Bytes()
	if len(b) > k {
		panic("coinReader: value wider than the sampler reads")
	}
	pad := make([]byte, k-len(b))
	c.buf = append(c.buf, append(pad, b...)...)
}

func (c *coinReader) Read(p []byte) (int, error) {
	n := 0
	if len(c.buf) > 0 {
		n = copy(p, c.buf)
		c.buf = c.buf[n:]
	}
	if n < len(p) {
		if c.rng == nil {
			return n, fmt.Errorf("coinReader: script exhausted")
		}
		c.rng.Read(p[n:])
	}
	c.Drawn += len(p)
	return len(p), nil
}

// fixtures: the vendored ECDSA key-generation outputs (full pre-parameters)
var fixtureCache []keygen.LocalPartySaveData

func loadFixtures() []keygen.LocalPartySaveData {
	if fixtureCache != nil {
		return fixtureCache
	}
	for i := 0; ; i++ {
		p := filepath.Join(repoDir, "test", "_ecdsa_fixtures", fmt.Sprintf("keygen_data_%d.json", i))
		b, err := os.ReadFile(p)
		if err != nil {
			break
		}
		var d keygen.LocalPartySaveData
		if err := json.Unmarshal(b, &d); err != nil {
			panic(fmt.Errorf("fixture %s: %v", p, err))
		}
		for _, kbxj := range d.BigXj {
			kbxj.SetCurve(tss.S256())
		}
		d.ECDSAPub.SetCurve(tss.S256())
		fixtureCache = append(fixtureCache, d)
	}
	if len(fixtureCache) == 0 {
		panic("no ECDSA fixtures found under " + repoDir)
	}
	return fixtureCache
}

func bi(n int64) *big.Int { return big.NewInt(n) }

func pick(rng *rand.Rand, xs []*big.Int) *big.Int { return xs[rng.Intn(len(xs))] }

// boundary scalars around the group order
func scalarGrid(rng *rand.Rand, q *big.Int) []*big.Int {
	g := []*big.Int{bi(0), bi(1), bi(2), bi(3), bi(7), bi(8),
		new(big.Int).Sub(q, bi(1)), new(big.Int).Set(q), new(big.Int).Add(q, bi(1)),
		new(big.Int).Add(new(big.Int).Lsh(q, 1), bi(3)), new(big.Int).Rsh(q, 1),
		new(big.Int).Lsh(bi(1), 255), new(big.Int).Sub(new(big.Int).Lsh(bi(1), 256), bi(1)),
		randInt(rng, 256), randInt(rng, 255), randInt(rng, 300), randInt(rng, 248), randInt(rng, 64)}
	return g
}

type bigInt = big.Int

func itoa(n int) string { return strconv.Itoa(n) }

func min(a, b int) int {
	if a < b {
		return a
	}
	return b
}

func sortStrings(s []string) { sort.Strings(s) }
