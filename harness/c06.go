package main

import (
	"fmt"
	"math/big"
	"math/rand"
	"strings"
)

func init() { props["C06"] = runC06 }

// boundary values for one integer field, relative to the moduli in play
func boundaryGrid(rng *rand.Rand, q, n *big.Int) []*big.Int {
	one := bi(1)
	n2 := new(big.Int).Mul(n, n)
	g := []*big.Int{bi(0), bi(1), bi(2),
		new(big.Int).Sub(q, one), new(big.Int).Set(q), new(big.Int).Add(q, one), new(big.Int).Lsh(q, 1),
		new(big.Int).Sub(n, one), new(big.Int).Set(n), new(big.Int).Add(n, one),
		new(big.Int).Set(n2), new(big.Int).Lsh(one, 255), new(big.Int).Lsh(one, 256), new(big.Int).Lsh(one, 2048),
		new(big.Int).Lsh(one, 4100), new(big.Int).Mul(q, new(big.Int).Mul(q, q))}
	return g
}

func runC06(r *Run, rng *rand.Rand, thorough bool) {
	r.Rule = "verdict agreement (accept / reject / error / panic / hang>10s) between every exported verifier and decoder and its Lean model on boundary grids: every field of every proof system set to {0,1,2,q-1,q,q+1,2q,N-1,N,N+1,N^2,2^255,2^256,2^2048,2^4100,q^3}, even/odd flips, crafted relations; non-trivial = distinct op line; direct assertion: the implementation returns (no panic, no hang); protocol level (child processes, every call under a watchdog): one field of one message replaced by a boundary value in whole runs of all six protocols (first/second/middle/last element of list fields; ECDSA keygen and resharing also with a single verifier worker), hash-correct de-commitments of the wrong arity for every commitment / de-commitment pair, and junk handed to UpdateFromBytes from a chosen event on (random bytes, bit-flipped / truncated / extended genuine messages, other / out-of-range / unknown sender, flipped broadcast flag, messages of another protocol, empty input)"
	protocolLevelC06(r, rng, thorough)
	cases := honestCases(r, rng, false)
	seenSys := map[string]int{}
	for _, c := range cases {
		seenSys[c.sys]++
		lim := 1
		if thorough {
			lim = 2
		}
		if seenSys[c.sys] > lim {
			continue
		}
		cv := curveByTag("s256")
		if strings.HasSuffix(c.sys, "/ed") {
			cv = curveByTag("ed")
		}
		q := cv.Params().N
		// a characteristic big modulus of the case
		n := new(big.Int).Lsh(bi(1), 2047)
		for _, ai := range c.stmt {
			if argKind(c.args[ai]) == "int" && dInt(c.args[ai]).BitLen() > 1000 {
				n = dInt(c.args[ai])
				break
			}
		}
		grid := boundaryGrid(rng, q, n)
		fields := append(append([]int{}, c.stmt...), c.proof...)
		for _, ai := range fields {
			s := c.args[ai]
			switch argKind(s) {
			case "int":
				if s == "nil" {
					continue
				}
				for _, v := range grid {
					args := append([]string{}, c.args...)
					args[ai] = eInt(v)
					checkNoCrash(r, c, args, fmt.Sprintf("arg%d=%s", ai, classOf(v, q, n)))
				}
				// parity flip
				v := dInt(s)
				args := append([]string{}, c.args...)
				args[ai] = eInt(new(big.Int).Xor(v, bi(1)))
				checkNoCrash(r, c, args, fmt.Sprintf("arg%d=parity-flip", ai))
			case "list":
				els := strings.Split(s, ",")
				idxs := []int{0, len(els) - 1}
				if len(els) <= 12 {
					idxs = nil
					for i := range els {
						idxs = append(idxs, i)
					}
				} else if thorough {
					idxs = append(idxs, len(els)/2, rng.Intn(len(els)))
				}
				for _, i := range idxs {
					for _, v := range grid {
						cp := append([]string{}, els...)
						cp[i] = eInt(v)
						args := append([]string{}, c.args...)
						args[ai] = strings.Join(cp, ",")
						checkNoCrash(r, c, args, fmt.Sprintf("arg%d[%d]=%s", ai, i, classOf(v, q, n)))
					}
				}
			}
		}
	}
	// decoders on the same grids
	two63 := new(big.Int).Lsh(bi(1), 63)
	for _, first := range []*big.Int{bi(0), bi(1), bi(128), bi(129), two63, new(big.Int).Lsh(bi(1), 64), new(big.Int).Lsh(bi(1), 300)} {
		for _, ln := range []int{0, 1, 2, 3, 130, 258, 259} {
			in := make([]*big.Int, ln)
			for i := range in {
				in[i] = bi(int64(3 + i))
			}
			if ln > 0 {
				in[0] = first
			}
			if ln > 129 {
				in[129] = bi(128)
			}
			g, _, _ := r.Do("dlnproof.UnmarshalDLNProof/grid", true, "dln_unmarshal", eInts(in))
			r.Assert(!strings.HasPrefix(g, "panic"), "dlnproof.UnmarshalDLNProof/grid", "decoder-returns", func() string { return g })
		}
	}
	for _, parts := range []int{6, 10, 11, 163} {
		for _, ln := range []int{0, 1, parts - 1, parts, parts + 1} {
			in := make([]*big.Int, ln)
			for i := range in {
				in[i] = bi(int64(1 + i))
			}
			if ln > 2 {
				in[ln/2] = bi(0)
			}
			g, _, _ := r.Do("FromBytes/arity", true, "wire_roundtrip", eInts(in), itoa(parts))
			r.Assert(!strings.HasPrefix(g, "panic"), "FromBytes/arity", "decoder-returns", func() string { return g })
		}
	}
}

func classOf(v, q, n *big.Int) string {
	switch {
	case v.Sign() == 0:
		return "0"
	case new(big.Int).Mod(v, q).Sign() == 0:
		return "0-mod-q"
	case v.Cmp(n) == 0:
		return "N"
	case v.Cmp(new(big.Int).Mul(n, n)) == 0:
		return "N^2"
	case v.BitLen() > 4000:
		return "oversized"
	}
	return "other"
}

func checkNoCrash(r *Run, c *zkCase, args []string, what string) {
	key := c.sys + ".Verify/" + what
	g, _, _ := r.Do(key, true, c.op, args...)
	r.Assert(!strings.HasPrefix(g, "panic") && g != "err hang", key, "verifier-returns", func() string { return c.sys + " " + what + " -> " + g[:min(len(g), 160)] })
}
