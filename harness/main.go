package main

import (
	"flag"
	"fmt"
	"math/rand"
	"os"
	"sort"
)

type propFn func(r *Run, rng *rand.Rand, thorough bool)

var props = map[string]propFn{}

func main() {
	if len(os.Args) < 2 {
		fmt.Fprintln(os.Stderr, "usage: vh <Cxx|facts|child|replay> [flags]")
		os.Exit(2)
	}
	cmd := os.Args[1]
	fs := flag.NewFlagSet(cmd, flag.ExitOnError)
	tier := fs.String("tier", "quick", "quick|thorough")
	seed := fs.Int64("seed", 1, "seed for every random choice")
	out := fs.String("out", "", "result JSON path")
	drv := fs.String("drv", "/verif/lean/.lake/build/bin/tssdrv", "Lean driver executable")
	gen := fs.String("gen", "/verif/lean/TssVerif/Gen", "directory for regenerated Lean facts")
	replay := fs.String("replay", "", "replay file")
	_ = fs.Parse(os.Args[2:])

	switch cmd {
	case "facts":
		if err := writeFacts(*gen); err != nil {
			fmt.Fprintln(os.Stderr, "facts:", err)
			os.Exit(1)
		}
		return
	case "child":
		childMain(os.Args[2:])
		return
	case "list":
		var ks []string
		for k := range props {
			ks = append(ks, k)
		}
		sort.Strings(ks)
		for _, k := range ks {
			fmt.Println(k)
		}
		return
	}
	fn, ok := props[cmd]
	if !ok {
		fmt.Fprintln(os.Stderr, "unknown property", cmd)
		os.Exit(2)
	}
	m, err := StartModel(*drv)
	if err != nil {
		fmt.Fprintln(os.Stderr, "cannot start model driver:", err)
		os.Exit(3)
	}
	defer m.Close()
	r := NewRun(cmd, *tier, *seed, m)
	rng := rand.New(rand.NewSource(*seed))
	if *replay != "" {
		replayFile(r, *replay)
	} else {
		fn(r, rng, *tier == "thorough")
	}
	if *out != "" {
		if err := r.Write(*out); err != nil {
			fmt.Fprintln(os.Stderr, err)
			os.Exit(3)
		}
	}
	fmt.Printf("%s: %d evaluations, %d distinct non-trivial, %d assertions, %d failures\n",
		cmd, r.Evals, r.Distinct, r.Asserts, len(r.Failures))
}
