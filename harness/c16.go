package main

import (
	"encoding/binary"
	"math/big"
	"math/rand"
	"strings"

	"github.com/bnb-chain/tss-lib/v2/common"
	cmts "github.com/bnb-chain/tss-lib/v2/crypto/commitments"
)

func init() {
	goOps["sha512_256"] = func(a []string) string {
		var in [][]byte
		if a[0] != "_" {
			for _, s := range strings.Split(a[0], ",") {
				in = append(in, dBytes(s))
			}
		}
		d := common.SHA512_256(in...)
		if d == nil {
			return "nil"
		}
		return eBytes(d)
	}
	goOps["sha512_256i"] = func(a []string) string {
		return eInt(common.SHA512_256i(dInts(a[0])...))
	}
	goOps["sha512_256i_tagged"] = func(a []string) string {
		return eInt(common.SHA512_256i_TAGGED(dBytes(a[0]), dInts(a[1])...))
	}
	goOps["sha512_256i_one"] = func(a []string) string {
		return eInt(common.SHA512_256iOne(dInt(a[0])))
	}
	goOps["commit"] = func(a []string) string {
		c := cmts.NewHashCommitmentWithRandomness(dInt(a[0]), dInts(a[1])...)
		return eInt(c.C) + " " + eInts(c.D)
	}
	goOps["commit_verify"] = func(a []string) string {
		c := &cmts.HashCommitDecommit{C: dInt(a[0]), D: dInts(a[1])}
		return verdictStr(c.Verify())
	}
	goOps["decommit"] = func(a []string) string {
		c := &cmts.HashCommitDecommit{C: dInt(a[0]), D: dInts(a[1])}
		ok, d := c.DeCommit()
		if !ok {
			return "ok false"
		}
		return "ok true " + eInts(d)
	}
	goOps["builder_secrets"] = func(a []string) string {
		b := cmts.NewBuilder()
		for _, p := range dIntsList(a[0]) {
			b.AddPart(p)
		}
		s, err := b.Secrets()
		if err != nil {
			return "err"
		}
		return "ok " + eInts(s)
	}
	goOps["parse_secrets"] = func(a []string) string {
		p, err := cmts.ParseSecrets(dInts(a[0]))
		if err != nil {
			return "err"
		}
		return "ok " + eIntsList(p)
	}
	props["C16"] = runC16
}

func dIntsList(s string) [][]*big.Int {
	if s == "!" {
		return [][]*big.Int{}
	}
	fs := strings.Split(s, "|")
	out := make([][]*big.Int, len(fs))
	for i, f := range fs {
		out[i] = dInts(f)
	}
	return out
}

// all byte strings of length ≤ maxLen over the alphabet
func allStrings(alpha []byte, maxLen int) [][]byte {
	out := [][]byte{{}}
	level := [][]byte{{}}
	for l := 1; l <= maxLen; l++ {
		var next [][]byte
		for _, s := range level {
			for _, c := range alpha {
				t := append(append([]byte{}, s...), c)
				next = append(next, t)
			}
		}
		out = append(out, next...)
		level = next
	}
	return out
}

func randBytes(rng *rand.Rand, n int) []byte {
	b := make([]byte, n)
	rng.Read(b)
	return b
}

func randInt(rng *rand.Rand, bits int) *big.Int {
	if bits <= 0 {
		return new(big.Int)
	}
	b := randBytes(rng, (bits+7)/8)
	z := new(big.Int).SetBytes(b)
	return z.Rsh(z, uint(len(b)*8-bits))
}

func runC16(r *Run, rng *rand.Rand, thorough bool) {
	r.Rule = "exact ops: Go hash/commit/builder/parser vs the Lean model (own SHA-512/256); non-trivial = distinct op line whose input is not the empty list; direct assertions: injectivity of digests over the enumerated tuples, decommit rejects every single edit, builder/parser round-trip, parser never panics"
	alpha := []byte{0x00, 0x24, 0x01, 0x08, 0xff}
	maxLen := 2
	if thorough {
		maxLen = 3
	}
	strs := allStrings(alpha, maxLen)
	r.Note("alphabet %x, strings of length ≤ %d: %d", alpha, maxLen, len(strs))

	// 1. exhaustive tuples (≤3 strings): bytes hash, injectivity of the digest on distinct tuples
	seenB := map[string]string{}
	seenI := map[string]string{}
	tupleCount := 0
	var tuples [][][]byte
	for _, a := range strs {
		tuples = append(tuples, [][]byte{a})
	}
	lim := len(strs)
	if !thorough && lim > 31 {
		lim = 31
	}
	for _, a := range strs[:lim] {
		for _, b := range strs[:lim] {
			tuples = append(tuples, [][]byte{a, b})
		}
	}
	lim3 := 6
	if thorough {
		lim3 = 31
	}
	for _, a := range strs[:lim3] {
		for _, b := range strs[:lim3] {
			for _, c := range strs[:lim3] {
				tuples = append(tuples, [][]byte{a, b, c})
			}
		}
	}
	for _, t := range tuples {
		tupleCount++
		arg := eBytesList(t)
		g, _, _ := r.Do("hash.SHA512_256", true, "sha512_256", arg)
		if prev, dup := seenB[g]; dup && prev != arg {
			r.Assert(false, "hash.SHA512_256/collision", "digest-injective-bytes", func() string { return prev + " and " + arg + " share digest " + g })
		} else {
			seenB[g] = arg
			r.Assert(true, "", "digest-injective-bytes", nil)
		}
		// the same tuple as integers: distinct integer sequences must give distinct digests
		ints := make([]*big.Int, len(t))
		for i, b := range t {
			ints[i] = new(big.Int).SetBytes(b)
		}
		iarg := eInts(ints)
		gi, _, _ := r.Do("hash.SHA512_256i", true, "sha512_256i", iarg)
		canon := make([]string, len(ints))
		for i, z := range ints {
			canon[i] = z.String()
		}
		ck := strings.Join(canon, ",")
		if prev, dup := seenI[gi]; dup && prev != ck {
			r.Assert(false, "hash.SHA512_256i/collision", "digest-injective-ints", func() string { return prev + " and " + ck + " share digest " + gi })
		} else {
			seenI[gi] = ck
			r.Assert(true, "", "digest-injective-ints", nil)
		}
	}
	r.Do("hash.SHA512_256", false, "sha512_256", "_")
	r.Do("hash.SHA512_256i", false, "sha512_256i", "_")

	// 1b. split points across an embedded frame: (…, A, B‖f‖D) against (…, A‖f‖B, D) for every f that looks like the
	// per-element frame ('$' followed by a 64-bit count or length, either byte order), same element count
	le := func(k int) []byte { b := make([]byte, 8); binary.LittleEndian.PutUint64(b, uint64(k)); return b }
	be := func(k int) []byte { b := make([]byte, 8); binary.BigEndian.PutUint64(b, uint64(k)); return b }
	cat := func(bs ...[]byte) []byte {
		var o []byte
		for _, b := range bs {
			o = append(o, b...)
		}
		return o
	}
	parts := [][]byte{{0x01}, {0x24}, {0x07, 0x24}, {0xab, 0xcd, 0xef}}
	for _, prefix := range [][][]byte{nil, {{0x05}}, {{0x05}, {0x06, 0x07}}} {
		n := len(prefix) + 2
		for pi, A := range parts {
			B, D := parts[(pi+1)%len(parts)], parts[(pi+2)%len(parts)]
			ks := []int{n, n - 1, len(A), len(B), len(D), len(A) + 9 + len(B), len(B) + 9 + len(D), 0, 1}
			var frames [][]byte
			for _, k := range ks {
				frames = append(frames, cat([]byte{'$'}, le(k)), cat([]byte{'$'}, be(k)), le(k))
			}
			frames = append(frames, []byte{'$'})
			for _, f := range frames {
				t1 := append(append([][]byte{}, prefix...), A, cat(B, f, D))
				t2 := append(append([][]byte{}, prefix...), cat(A, f, B), D)
				g1, _, _ := r.Do("hash.SHA512_256/embedded-frame", true, "sha512_256", eBytesList(t1))
				g2, _, _ := r.Do("hash.SHA512_256/embedded-frame", true, "sha512_256", eBytesList(t2))
				r.Assert(g1 != g2, "hash.SHA512_256/split-collision", "digest-injective-bytes", func() string { return eBytesList(t1) + " and " + eBytesList(t2) + " share digest " + g1 })
				toInts := func(t [][]byte) []*big.Int {
					o := make([]*big.Int, len(t))
					for i, b := range t {
						o[i] = new(big.Int).SetBytes(b)
					}
					return o
				}
				i1, i2 := toInts(t1), toInts(t2)
				h1, _, _ := r.Do("hash.SHA512_256i/embedded-frame", true, "sha512_256i", eInts(i1))
				h2, _, _ := r.Do("hash.SHA512_256i/embedded-frame", true, "sha512_256i", eInts(i2))
				r.Assert(h1 != h2, "hash.SHA512_256i/split-collision", "digest-injective-ints", func() string { return eInts(i1) + " and " + eInts(i2) + " share digest " + h1 })
				tg := []byte("tag")
				k1, _, _ := r.Do("hash.SHA512_256i_TAGGED/embedded-frame", true, "sha512_256i_tagged", eBytes(tg), eInts(i1))
				k2, _, _ := r.Do("hash.SHA512_256i_TAGGED/embedded-frame", true, "sha512_256i_tagged", eBytes(tg), eInts(i2))
				r.Assert(k1 != k2, "hash.TAGGED/split-collision", "digest-injective-tagged", func() string { return eInts(i1) + " and " + eInts(i2) + " share digest " + k1 })
			}
		}
	}

	// 2. tagged hash: different tags / splits give different digests
	seenT := map[string]string{}
	nTag := 6
	if thorough {
		nTag = len(strs)
		if nTag > 40 {
			nTag = 40
		}
	}
	for _, tag := range strs[:nTag] {
		for _, a := range strs[:nTag] {
			for _, b := range strs[:3] {
				ints := []*big.Int{new(big.Int).SetBytes(a), new(big.Int).SetBytes(b)}
				g, _, _ := r.Do("hash.TAGGED", true, "sha512_256i_tagged", eBytes(tag), eInts(ints))
				k := eBytes(tag) + "/" + ints[0].String() + "," + ints[1].String()
				if prev, dup := seenT[g]; dup && prev != k {
					r.Assert(false, "hash.TAGGED/collision", "digest-injective-tagged", func() string { return prev + " and " + k })
				} else {
					seenT[g] = k
					r.Assert(true, "", "digest-injective-tagged", nil)
				}
			}
		}
	}
	// random long tuples, negative numbers (the sign is dropped: recorded, not a violation)
	nRand := 60
	if thorough {
		nRand = 600
	}
	for i := 0; i < nRand; i++ {
		k := 1 + rng.Intn(6)
		ints := make([]*big.Int, k)
		for j := range ints {
			ints[j] = randInt(rng, []int{0, 1, 7, 8, 9, 64, 255, 256, 257, 2048}[rng.Intn(10)])
			if rng.Intn(8) == 0 {
				ints[j].Neg(ints[j])
			}
		}
		r.Do("hash.SHA512_256i", true, "sha512_256i", eInts(ints))
		r.Do("hash.TAGGED", true, "sha512_256i_tagged", eBytes(randBytes(rng, rng.Intn(40))), eInts(ints))
		r.Do("hash.One", true, "sha512_256i_one", eInt(ints[0]))
		bs := make([][]byte, k)
		for j := range bs {
			bs[j] = randBytes(rng, rng.Intn(300))
		}
		r.Do("hash.SHA512_256", true, "sha512_256", eBytesList(bs))
	}

	// 3. commitments: open only with exactly the committed sequence
	nC := 40
	if thorough {
		nC = 300
	}
	for i := 0; i < nC; i++ {
		k := rng.Intn(5)
		secrets := make([]*big.Int, k)
		for j := range secrets {
			secrets[j] = randInt(rng, []int{0, 1, 8, 64, 256, 300}[rng.Intn(6)])
		}
		rr := randInt(rng, 256)
		g, _, _ := r.Do("commit.New", true, "commit", eInt(rr), eInts(secrets))
		f := strings.Split(g, " ")
		if len(f) != 2 {
			continue
		}
		C, D := f[0], dInts(f[1])
		gv, _, _ := r.Do("commit.Verify", true, "commit_verify", C, eInts(D))
		r.Assert(gv == "accept", "commit.Verify/honest", "honest-commitment-opens", func() string { return g })
		gd, _, _ := r.Do("commit.DeCommit", true, "decommit", C, eInts(D))
		r.Assert(gd == "ok true "+eInts(secrets), "commit.DeCommit/honest", "decommit-returns-secrets", func() string { return gd })
		// every single edit of the decommitment must fail to open
		edits := singleEdits(rng, D)
		for _, e := range edits {
			ge, _, _ := r.Do("commit.Verify", true, "commit_verify", C, eInts(e))
			if sameInts(e, D) {
				continue
			}
			r.Assert(ge != "accept", "commit.Verify/edit", "edited-decommitment-rejected", func() string { return C + " " + eInts(e) })
		}
	}
	r.Do("commit.Verify/emptyD", false, "commit_verify", "01", "_")

	// 4. builder / parser: all layouts within the limits, round-trip; truncations; forged prefixes
	val := func() *big.Int { return randInt(rng, []int{0, 1, 3, 8, 64, 256}[rng.Intn(6)]) }
	var layouts [][]int
	maxPart := 3
	if thorough {
		maxPart = 4
	}
	for np := 0; np <= 5; np++ {
		if np == 5 && !thorough {
			maxPart = 1
		}
		var rec func(cur []int)
		rec = func(cur []int) {
			if len(cur) == np {
				layouts = append(layouts, append([]int{}, cur...))
				return
			}
			for l := 0; l <= maxPart; l++ {
				rec(append(cur, l))
			}
		}
		rec(nil)
	}
	for _, lay := range layouts {
		parts := make([][]*big.Int, len(lay))
		for i, l := range lay {
			parts[i] = make([]*big.Int, l)
			for j := range parts[i] {
				parts[i][j] = val()
			}
		}
		gs, _, _ := r.Do("builder.Secrets", true, "builder_secrets", eIntsList(parts))
		if !strings.HasPrefix(gs, "ok ") {
			r.Assert(len(parts) > cmts.PartsCap, "builder.Secrets/refusal", "builder-refuses-only-too-many-parts", func() string { return eIntsList(parts) })
			// what the builder refuses to pack, packed by hand: the parser must refuse it too
			var packed []*big.Int
			for _, pt := range parts {
				packed = append(append(packed, big.NewInt(int64(len(pt)))), pt...)
			}
			gp, _, _ := r.Do("commitments.ParseSecrets/oversized", true, "parse_secrets", eInts(packed))
			r.Assert(gp == "err", "commitments.ParseSecrets/too-many-parts", "parser-rejects-more-parts-than-the-builder-packs", func() string { return eIntsList(parts) + " packed as " + eInts(packed) + " -> " + gp })
			continue
		}
		secrets := strings.TrimPrefix(gs, "ok ")
		gp, _, _ := r.Do("commitments.ParseSecrets", true, "parse_secrets", secrets)
		if len(dInts(secrets)) >= 2 {
			key := "commitments.ParseSecrets/roundtrip"
			if len(lay) > 0 && lay[len(lay)-1] == 0 {
				key = "commitments.ParseSecrets/roundtrip-trailing-empty-part"
			}
			r.Assert(gp == "ok "+eIntsList(parts), key, "builder-parser-roundtrip", func() string { return eIntsList(parts) + " -> " + secrets + " -> " + gp })
		}
		// truncations of a well-formed packing: never a panic; never *more* parts than packed
		all := dInts(secrets)
		for cut := 0; cut < len(all); cut++ {
			gt, _, _ := r.Do("commitments.ParseSecrets", true, "parse_secrets", eInts(all[:cut]))
			r.Assert(!strings.HasPrefix(gt, "panic"), "commitments.ParseSecrets/truncated", "parser-never-panics", func() string { return eInts(all[:cut]) + " -> " + gt })
		}
	}
	// forged length prefixes
	two63 := new(big.Int).Lsh(big.NewInt(1), 63)
	two64 := new(big.Int).Lsh(big.NewInt(1), 64)
	forged := []*big.Int{big.NewInt(0), big.NewInt(1), big.NewInt(2), big.NewInt(3), big.NewInt(1 << 20), big.NewInt(1<<20 + 1),
		new(big.Int).Sub(two63, big.NewInt(1)), two63, new(big.Int).Add(two63, big.NewInt(1)),
		new(big.Int).Sub(two64, big.NewInt(1)), two64, new(big.Int).Add(two64, big.NewInt(1)), new(big.Int).Add(two64, big.NewInt(2)),
		new(big.Int).Lsh(big.NewInt(1), 200), big.NewInt(-1), big.NewInt(-2)}
	for _, f1 := range forged {
		for _, tail := range [][]*big.Int{{}, {big.NewInt(7)}, {big.NewInt(7), big.NewInt(0)}, {big.NewInt(7), big.NewInt(1), big.NewInt(9)}, {big.NewInt(7), big.NewInt(8)}} {
			in := append([]*big.Int{f1}, tail...)
			cls := "in-range"
			if f1.Sign() < 0 || f1.BitLen() > 63 {
				cls = "forged-length-beyond-int63"
			}
			gt, _, _ := r.Do("commitments.ParseSecrets/"+cls, true, "parse_secrets", eInts(in))
			r.Assert(!strings.HasPrefix(gt, "panic"), "commitments.ParseSecrets/"+cls, "parser-never-panics", func() string { return eInts(in) + " -> " + gt })
			if f1.Sign() < 0 || f1.Cmp(big.NewInt(cmts.MaxPartSize)) > 0 {
				r.Assert(strings.HasPrefix(gt, "err"), "commitments.ParseSecrets/oversized-length-refused", "parser-rejects-oversized-input-with-an-error", func() string { return eInts(in) + " -> " + gt })
			}
			for _, f2 := range forged {
				in2 := append(append([]*big.Int{big.NewInt(1), big.NewInt(5)}, f2), tail...)
				cls2 := "in-range"
				if f2.Sign() < 0 || f2.BitLen() > 63 {
					cls2 = "forged-length-beyond-int63"
				}
				gt2, _, _ := r.Do("commitments.ParseSecrets/"+cls2, true, "parse_secrets", eInts(in2))
				r.Assert(!strings.HasPrefix(gt2, "panic"), "commitments.ParseSecrets/"+cls2, "parser-never-panics", func() string { return eInts(in2) + " -> " + gt2 })
				if f2.Sign() < 0 || f2.Cmp(big.NewInt(cmts.MaxPartSize)) > 0 {
					r.Assert(strings.HasPrefix(gt2, "err"), "commitments.ParseSecrets/oversized-length-refused", "parser-rejects-oversized-input-with-an-error", func() string { return eInts(in2) + " -> " + gt2 })
				}
			}
		}
	}
}

func sameInts(a, b []*big.Int) bool {
	if len(a) != len(b) {
		return false
	}
	for i := range a {
		if a[i].Cmp(b[i]) != 0 {
			return false
		}
	}
	return true
}

// singleEdits: change, add, remove or re-group one element
func singleEdits(rng *rand.Rand, d []*big.Int) [][]*big.Int {
	var out [][]*big.Int
	cp := func() []*big.Int {
		c := make([]*big.Int, len(d))
		for i := range d {
			c[i] = new(big.Int).Set(d[i])
		}
		return c
	}
	for i := range d {
		c := cp()
		c[i].Add(c[i], big.NewInt(1))
		out = append(out, c)
		c = cp()
		c[i] = randInt(rng, d[i].BitLen())
		out = append(out, c)
		// remove element i
		c = cp()
		c = append(c[:i], c[i+1:]...)
		if len(c) > 0 {
			out = append(out, c)
		}
		// insert a zero after i
		c = cp()
		c = append(c[:i+1], append([]*big.Int{big.NewInt(0)}, c[i+1:]...)...)
		out = append(out, c)
		// re-group: merge i and i+1 by byte concatenation; split element i in two
		if i+1 < len(d) {
			c = cp()
			m := new(big.Int).SetBytes(append(append([]byte{}, d[i].Bytes()...), d[i+1].Bytes()...))
			c[i] = m
			c = append(c[:i+1], c[i+2:]...)
			out = append(out, c)
		}
		if b := d[i].Bytes(); len(b) >= 2 {
			c = cp()
			k := 1 + rng.Intn(len(b)-1)
			c[i] = new(big.Int).SetBytes(b[:k])
			c = append(c[:i+1], append([]*big.Int{new(big.Int).SetBytes(b[k:])}, c[i+1:]...)...)
			out = append(out, c)
		}
	}
	return out
}
