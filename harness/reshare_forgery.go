package main

import (
	"fmt"
	"math/big"
	"math/rand"

	ecdsakeygen "github.com/bnb-chain/tss-lib/v2/ecdsa/keygen"
	ecdsaresharing "github.com/bnb-chain/tss-lib/v2/ecdsa/resharing"
	eddsakeygen "github.com/bnb-chain/tss-lib/v2/eddsa/keygen"
	eddsaresharing "github.com/bnb-chain/tss-lib/v2/eddsa/resharing"
	"github.com/bnb-chain/tss-lib/v2/tss"
)

// reshareForgery: one deviating OLD member sends a bad share to new member v (which aborts, correctly blaming it)
// and then supplies "new member v's" acknowledgement itself, under its own authenticated identity: the library
// files a message by type and sender INDEX only. The property's last clause: if an honest old member's share has
// been erased then every honest new member has emitted valid key data.
func reshareForgery(r *Run, rng *rand.Rand, curve string) {
	var net *Net
	var heldXi []*big.Int
	nOld, nNew := 2, 2
	newPIDs := makePIDs([]*big.Int{big.NewInt(9001), big.NewInt(9002)}, "N")
	dev, victim := 1, 1 // old member 1 deviates; new member 1 is the victim (same index in its committee)
	if curve == "ed" {
		ks, err := genEdKeys(rng, 2, 1, 0, Strategy{Name: "fifo", Pick: pickFIFO})
		if err != nil {
			return
		}
		keys := cloneEdKeys(ks.keys)
		for i := range keys {
			heldXi = append(heldXi, keys[i].Xi)
		}
		net = eddsaResharingNet(rng, keys, ks.pids, 1, newPIDs, 1)
	} else {
		ks := fixtureEcKeys()
		keys := make([]ecdsakeygen.LocalPartySaveData, 0, 3)
		for i := 0; i < 3; i++ {
			c := ks.keys[i]
			c.Xi = new(big.Int).Set(ks.keys[i].Xi)
			keys = append(keys, c)
			heldXi = append(heldXi, c.Xi)
		}
		nOld = 3
		net = ecdsaResharingNet(rng, keys, ks.pids[:3], ks.t, newPIDs, 1, true, 0)
	}
	all := make([]*tss.PartyID, 0)
	for _, nd := range net.Nodes {
		all = append(all, nd.ID)
	}
	trng := rand.New(rand.NewSource(rng.Int63()))
	forged := false
	net.Tamper = func(from int, m tss.Message) []tss.Message {
		if from != dev {
			return []tss.Message{m}
		}
		t := shortType(m.Type())
		if t == "DGRound3Message1" && len(m.GetTo()) == 1 && m.GetTo()[0].Index == victim {
			tm, _ := tamperMsg(trng, m, nil, injSpec{Type: t, Field: "share", Kind: "+1"})
			out := []tss.Message{tm}
			if !forged {
				forged = true
				// the acknowledgement type of the NEW committee, sent by the old member under its own identity
				if curve == "ed" {
					out = append(out, eddsaresharing.NewDGRound4Message(all, net.Nodes[dev].ID))
				} else {
					out = append(out, ecdsaresharing.NewDGRound4Message2(all, net.Nodes[dev].ID))
				}
			}
			return out
		}
		return []tss.Message{m}
	}
	net.Run(rng, Strategy{Name: "fifo", Pick: pickFIFO}, 300000)
	r.Evals++
	r.Distinct++
	r.Traces++
	erased := false
	for i := 0; i < nOld; i++ {
		if i != dev && heldXi[i].Sign() == 0 {
			erased = true
		}
	}
	allSaved := true
	desc := ""
	for i := nOld; i < nOld+nNew; i++ {
		nd := net.Nodes[i]
		ok := false
		for _, e := range nd.Ends {
			switch k := e.(type) {
			case *eddsakeygen.LocalPartySaveData:
				ok = k.Xi != nil && k.Xi.Sign() != 0
			case *ecdsakeygen.LocalPartySaveData:
				ok = k.Xi != nil && k.Xi.Sign() != 0
			}
		}
		if !ok {
			allSaved = false
		}
		desc += fmt.Sprintf(" %s:%s saved=%v", nd.Name, roundOf(nd.Party), ok)
	}
	key := "resharing-ack-forgery/" + curve
	r.Assert(!erased || allSaved, key, "old-share-erased-only-if-every-honest-new-member-saved-key-data", func() string {
		return fmt.Sprintf("old member %d sends new member %d a bad share and forges its acknowledgement: honest old share erased=%v;%s panics=%v", dev, victim, erased, desc, net.Panics)
	})
}
