package main

// Lock-discipline facts for C09, extracted from the source tree with go/ast on every run: for the shared entry
// points of tss/party.go and the per-protocol wrappers, what happens before the party lock is taken, whether a
// TryLock is used, and whether every way out of the function releases the lock.

import (
	"fmt"
	"go/ast"
	"go/parser"
	"go/token"
	"path/filepath"
	"sort"
	"strings"
)

type lockFact struct {
	Fn             string
	Found          bool
	BeforeLock     []string // calls/field uses on the party before the first lock()
	Locks          int
	TryLocks       int
	DeferUnlock    bool
	UnguardedExits int // return statements that neither go through the unlocking closure nor directly follow unlock() (only meaningful without a deferred unlock)
}

// selector chain of an expression rooted at identifier `root` ("p.round().Update" → "round.Update"), or "" if not rooted there
func chainOf(e ast.Expr, root string) string {
	switch x := e.(type) {
	case *ast.Ident:
		if x.Name == root {
			return "."
		}
	case *ast.SelectorExpr:
		if c := chainOf(x.X, root); c != "" {
			return strings.TrimPrefix(c+"."+x.Sel.Name, "..")
		}
	case *ast.CallExpr:
		return chainOf(x.Fun, root)
	}
	return ""
}

func analyseLocking(fn *ast.FuncDecl, recv string) lockFact {
	lf := lockFact{Fn: fn.Name.Name, Found: true}
	if fn.Body == nil {
		return lf
	}
	// name of the unlocking closure, if any: a func literal whose body calls recv.unlock()
	unlockers := map[string]bool{}
	for _, st := range fn.Body.List {
		if as, ok := st.(*ast.AssignStmt); ok && len(as.Lhs) == 1 && len(as.Rhs) == 1 {
			if fl, ok := as.Rhs[0].(*ast.FuncLit); ok {
				calls := false
				ast.Inspect(fl, func(n ast.Node) bool {
					if c, ok := n.(*ast.CallExpr); ok && chainOf(c.Fun, recv) == "unlock" {
						calls = true
					}
					return true
				})
				if id, ok := as.Lhs[0].(*ast.Ident); ok && calls {
					unlockers[id.Name] = true
				}
			}
		}
	}
	locked := false
	for _, st := range fn.Body.List {
		if es, ok := st.(*ast.ExprStmt); ok {
			if c, ok := es.X.(*ast.CallExpr); ok && chainOf(c.Fun, recv) == "lock" {
				locked = true
				continue
			}
		}
		if ds, ok := st.(*ast.DeferStmt); ok && chainOf(ds.Call.Fun, recv) == "unlock" {
			lf.DeferUnlock = true
			continue
		}
		if !locked {
			// anything touching the party before the lock (closure definitions are inert)
			if as, ok := st.(*ast.AssignStmt); ok && len(as.Rhs) == 1 {
				if _, isLit := as.Rhs[0].(*ast.FuncLit); isLit {
					continue
				}
			}
			ast.Inspect(st, func(n ast.Node) bool {
				switch x := n.(type) {
				case *ast.CallExpr:
					if ch := chainOf(x.Fun, recv); ch != "" && ch != "." {
						lf.BeforeLock = append(lf.BeforeLock, ch)
						return false
					}
				case *ast.SelectorExpr:
					if id, ok := x.X.(*ast.Ident); ok && id.Name == recv {
						lf.BeforeLock = append(lf.BeforeLock, x.Sel.Name)
					}
				}
				return true
			})
		}
	}
	var prev ast.Stmt
	var walk func(list []ast.Stmt)
	walk = func(list []ast.Stmt) {
		for _, st := range list {
			switch x := st.(type) {
			case *ast.ReturnStmt:
				ok := false
				if len(x.Results) == 1 {
					if c, isCall := x.Results[0].(*ast.CallExpr); isCall {
						if id, isId := c.Fun.(*ast.Ident); isId && unlockers[id.Name] {
							ok = true
						}
					}
				}
				if es, isEs := prev.(*ast.ExprStmt); isEs {
					if c, isCall := es.X.(*ast.CallExpr); isCall && chainOf(c.Fun, recv) == "unlock" {
						ok = true
					}
				}
				if !ok {
					lf.UnguardedExits++
				}
			case *ast.IfStmt:
				walk(x.Body.List)
				if eb, ok := x.Else.(*ast.BlockStmt); ok {
					walk(eb.List)
				} else if ei, ok := x.Else.(*ast.IfStmt); ok {
					walk([]ast.Stmt{ei})
				}
			case *ast.BlockStmt:
				walk(x.List)
			case *ast.ForStmt:
				walk(x.Body.List)
			case *ast.RangeStmt:
				walk(x.Body.List)
			}
			prev = st
		}
	}
	walk(fn.Body.List)
	ast.Inspect(fn.Body, func(n ast.Node) bool {
		if c, ok := n.(*ast.CallExpr); ok {
			switch ch := chainOf(c.Fun, recv); {
			case ch == "lock":
				lf.Locks++
			case strings.HasSuffix(ch, "TryLock"):
				lf.TryLocks++
			}
		}
		return true
	})
	sort.Strings(lf.BeforeLock)
	return lf
}

// wrapperFact: what a per-protocol LocalParty method consists of
type wrapperFact struct {
	Pkg, Fn string
	Calls   []string // calls in order of appearance
}

func lockDisciplineFacts() ([]lockFact, []wrapperFact, error) {
	fset := token.NewFileSet()
	f, err := parser.ParseFile(fset, "/repo/tss/party.go", nil, 0)
	if err != nil {
		return nil, nil, err
	}
	want := map[string]bool{"WaitingFor": true, "BaseWrapError": true, "BaseStart": true, "BaseUpdate": true}
	var out []lockFact
	seen := map[string]bool{}
	for _, d := range f.Decls {
		fn, ok := d.(*ast.FuncDecl)
		if !ok || !want[fn.Name.Name] {
			continue
		}
		recv := "p"
		if fn.Recv != nil && len(fn.Recv.List) == 1 && len(fn.Recv.List[0].Names) == 1 {
			recv = fn.Recv.List[0].Names[0].Name
		} else if fn.Type.Params != nil && len(fn.Type.Params.List) > 0 && len(fn.Type.Params.List[0].Names) > 0 {
			recv = fn.Type.Params.List[0].Names[0].Name
		}
		out = append(out, analyseLocking(fn, recv))
		seen[fn.Name.Name] = true
	}
	for k := range want {
		if !seen[k] {
			out = append(out, lockFact{Fn: k})
		}
	}
	sort.Slice(out, func(i, j int) bool { return out[i].Fn < out[j].Fn })
	var ws []wrapperFact
	for _, pkg := range []string{"ecdsa/keygen", "ecdsa/signing", "ecdsa/resharing", "eddsa/keygen", "eddsa/signing", "eddsa/resharing"} {
		lf, err := parser.ParseFile(fset, filepath.Join("/repo", pkg, "local_party.go"), nil, 0)
		if err != nil {
			return nil, nil, err
		}
		for _, name := range []string{"Start", "Update", "UpdateFromBytes"} {
			w := wrapperFact{Pkg: pkg, Fn: name}
			for _, d := range lf.Decls {
				fn, ok := d.(*ast.FuncDecl)
				if !ok || fn.Name.Name != name || fn.Recv == nil || fn.Body == nil {
					continue
				}
				ast.Inspect(fn.Body, func(n ast.Node) bool {
					if c, ok := n.(*ast.CallExpr); ok {
						switch x := c.Fun.(type) {
						case *ast.SelectorExpr:
							if id, ok := x.X.(*ast.Ident); ok {
								w.Calls = append(w.Calls, id.Name+"."+x.Sel.Name)
							}
						case *ast.Ident:
							w.Calls = append(w.Calls, x.Name)
						}
					}
					return true
				})
			}
			ws = append(ws, w)
		}
	}
	return out, ws, nil
}

func leanLockFacts() (string, error) {
	lfs, ws, err := lockDisciplineFacts()
	if err != nil {
		return "", err
	}
	var sb strings.Builder
	sb.WriteString("/-! lock discipline of the shared entry points (tss/party.go) and of the per-protocol wrappers, from a go/ast pass -/\n")
	sb.WriteString("structure LockFact where\n  fn : String\n  found : Bool\n  beforeLock : List String\n  locks : Nat\n  tryLocks : Nat\n  deferUnlock : Bool\n  unguardedExits : Nat\nderiving DecidableEq, Repr\n\n")
	var items []string
	for _, l := range lfs {
		items = append(items, fmt.Sprintf("⟨%q, %v, [%s], %d, %d, %v, %d⟩", l.Fn, l.Found, quoteJoin(l.BeforeLock), l.Locks, l.TryLocks, l.DeferUnlock, l.UnguardedExits))
	}
	fmt.Fprintf(&sb, "def lockFacts : List LockFact := [%s]\n\n", strings.Join(items, ",\n  "))
	var wi []string
	for _, w := range ws {
		wi = append(wi, fmt.Sprintf("(%q, %q, [%s])", w.Pkg, w.Fn, quoteJoin(w.Calls)))
	}
	fmt.Fprintf(&sb, "/-- (package, method, calls made in its body in order) for Start / Update / UpdateFromBytes of every LocalParty -/\ndef wrapperCalls : List (String × String × List String) := [%s]\n\n", strings.Join(wi, ",\n  "))
	return sb.String(), nil
}
