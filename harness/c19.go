package main

import (
	"context"
	"errors"
	"fmt"
	"io"
	"math/big"
	"math/rand"
	"runtime"
	"strings"
	"sync"
	"time"

	"github.com/bnb-chain/tss-lib/v2/common"
	"github.com/bnb-chain/tss-lib/v2/crypto"
	ecdsakeygen "github.com/bnb-chain/tss-lib/v2/ecdsa/keygen"
)

func init() {
	props["C19"] = runC19
	script := func(bound *big.Int, cands []*big.Int) *coinReader {
		cr := &coinReader{}
		for _, c := range cands {
			cr.push(c, bound.BitLen())
		}
		return cr
	}
	sample := func(f func(cr *coinReader, n *big.Int) *big.Int) func(a []string) string {
		return func(a []string) string {
			n := dInt(a[0])
			cr := script(n, dInts(a[1]))
			var v *big.Int
			res := guard(func() string {
				v = f(cr, n)
				return ""
			})
			if strings.Contains(res, "script exhausted") {
				return "exhausted"
			}
			if res != "" {
				return res
			}
			if v == nil {
				return "exhausted"
			}
			return "ok " + eInt(v)
		}
	}
	goOps["sample_positive"] = sample(func(cr *coinReader, n *big.Int) *big.Int { return common.GetRandomPositiveInt(cr, n) })
	goOps["sample_relprime"] = sample(func(cr *coinReader, n *big.Int) *big.Int { return common.GetRandomPositiveRelativelyPrimeInt(cr, n) })
	goOps["sample_qnr"] = sample(func(cr *coinReader, n *big.Int) *big.Int { return common.GetRandomQuadraticNonResidue(cr, n) })
}

type failingReader struct {
	mu   sync.Mutex
	r    io.Reader
	left int
}

// barrierReader serves `good` bytes, then every Read waits until `want` readers are waiting (or 300 ms) and fails
type barrierReader struct {
	mu      sync.Mutex
	r       io.Reader
	good    int
	want    int
	waiting int
	release chan struct{}
}

func (b *barrierReader) Read(p []byte) (int, error) {
	b.mu.Lock()
	if b.good >= len(p) {
		b.good -= len(p)
		n, err := b.r.Read(p)
		b.mu.Unlock()
		return n, err
	}
	if b.release == nil {
		b.release = make(chan struct{})
		rel := b.release
		go func() {
			time.Sleep(300 * time.Millisecond)
			b.mu.Lock()
			select {
			case <-rel:
			default:
				close(rel)
			}
			b.mu.Unlock()
		}()
	}
	b.waiting++
	rel := b.release
	if b.waiting >= b.want {
		select {
		case <-rel:
		default:
			close(rel)
		}
	}
	b.mu.Unlock()
	<-rel
	return 0, errors.New("entropy source failed")
}

func (f *failingReader) Read(p []byte) (int, error) {
	f.mu.Lock()
	defer f.mu.Unlock()
	if f.left <= 0 {
		return 0, errors.New("entropy source failed")
	}
	if len(p) > f.left {
		p = p[:f.left]
	}
	n, err := f.r.Read(p)
	f.left -= n
	return n, err
}

// call f with a watchdog; returns false if it did not return in time
func within(d time.Duration, f func()) bool {
	done := make(chan bool, 1)
	go func() { f(); done <- true }()
	select {
	case <-done:
		return true
	case <-time.After(d):
		return false
	}
}

func goroutinesSettle(base int, d time.Duration) int {
	deadline := time.Now().Add(d)
	n := runtime.NumGoroutine()
	for time.Now().Before(deadline) {
		n = runtime.NumGoroutine()
		if n <= base {
			return n
		}
		time.Sleep(10 * time.Millisecond)
	}
	return n
}

func checkPreParams(r *Run, what string, pp *ecdsakeygen.LocalPreParams) {
	one := bi(1)
	sk := pp.PaillierSK
	safe := func(p *big.Int) bool {
		return p.ProbablyPrime(30) && new(big.Int).Rsh(new(big.Int).Sub(p, one), 1).ProbablyPrime(30)
	}
	r.Assert(sk.N.BitLen() == 2048 && sk.N.Cmp(new(big.Int).Mul(sk.P, sk.Q)) == 0 && sk.P.Cmp(sk.Q) != 0 && safe(sk.P) && safe(sk.Q),
		what+"/paillier", "paillier-key-2048-bit-from-two-distinct-safe-primes", nil)
	P := new(big.Int).Add(new(big.Int).Lsh(pp.P, 1), one)
	Q := new(big.Int).Add(new(big.Int).Lsh(pp.Q, 1), one)
	r.Assert(pp.NTildei.BitLen() == 2048 && pp.NTildei.Cmp(new(big.Int).Mul(P, Q)) == 0 && pp.P.ProbablyPrime(30) && pp.Q.ProbablyPrime(30) && P.ProbablyPrime(30) && Q.ProbablyPrime(30),
		what+"/ntilde", "ring-pedersen-modulus-2048-bit-from-two-safe-primes", nil)
	r.Assert(pp.NTildei.Cmp(sk.N) != 0 && new(big.Int).GCD(nil, nil, pp.NTildei, sk.N).Cmp(one) == 0, what+"/independent", "ring-pedersen-modulus-independent-of-paillier-modulus", nil)
	h2 := new(big.Int).Exp(pp.H1i, pp.Alpha, pp.NTildei)
	h1 := new(big.Int).Exp(pp.H2i, pp.Beta, pp.NTildei)
	r.Assert(h2.Cmp(pp.H2i) == 0 && h1.Cmp(pp.H1i) == 0, what+"/h1h2", "h2=h1^alpha-and-h1=h2^beta", nil)
	// squares: h^(pq) = 1 for an element of the subgroup of squares (order pq)
	pq := new(big.Int).Mul(pp.P, pp.Q)
	r.Assert(new(big.Int).Exp(pp.H1i, pq, pp.NTildei).Cmp(one) == 0 && new(big.Int).Exp(pp.H2i, pq, pp.NTildei).Cmp(one) == 0 &&
		big.Jacobi(pp.H1i, pp.NTildei) == 1 && pp.H1i.Cmp(one) != 0 && pp.H2i.Cmp(one) != 0, what+"/squares", "h1-h2-are-squares-of-order-dividing-pq", nil)
}

func runC19(r *Run, rng *rand.Rand, thorough bool) {
	r.Rule = "the safe-prime generator is called for bit lengths {6,7,8,9,10,12,16,24,32,48,64} (thorough: every length 6..64 and 128/256/512), 1-3 primes, concurrency 1-8, each call under a watchdog; cancellation at several instants and a failing entropy source (after k bytes; and failing all workers at once for several (primes, workers) shapes) with goroutine counts before/after; samplers on bounds 1,2,3,…,40, prime powers and 2048-bit bounds; the structure of the vendored pre-parameters (outputs of the library's generator) and, in the thorough tier, of a freshly generated full-size set; non-trivial = one generator call; direct assertions: shape of (q,p), promptness, no goroutine left, ranges, algebra of h1/h2"
	base := runtime.NumGoroutine()
	lens := []int{6, 7, 8, 9, 10, 12, 16, 24, 32, 48, 64}
	reps := 3
	if thorough {
		lens = nil
		for l := 6; l <= 64; l++ {
			lens = append(lens, l)
		}
		lens = append(lens, 128, 256, 512)
		reps = 6
	}
	for _, bl := range lens {
		for rep := 0; rep < reps; rep++ {
			num := 1 + (rep+bl)%3
			conc := []int{1, 2, 4, 8}[(rep+bl)%4]
			var sgps []*common.GermainSafePrime
			var err error
			wd := 20 * time.Second
			if bl > 64 {
				wd = 120 * time.Second
			}
			// the context is only cancelled after the watchdog has fired, to stop the spinning workers
			ctx, cancel := context.WithCancel(context.Background())
			ok := within(wd, func() {
				sgps, err = common.GetRandomSafePrimesConcurrent(ctx, bl, num, conc, newLockedRand(rng.Int63()))
			})
			cancel()
			r.Evals++
			r.Dist[fmt.Sprintf("safe-primes/bits=%d", bl)]++
			if !ok {
				r.Assert(false, "common.GetRandomSafePrimesConcurrent/returns", "generator-returns", func() string {
					return fmt.Sprintf("bitLen=%d num=%d concurrency=%d did not return within %v", bl, num, conc, wd)
				})
				break
			}
			r.Distinct++
			r.Assert(err == nil && len(sgps) == num, "common.GetRandomSafePrimesConcurrent/count", "requested-number-of-pairs", func() string { return fmt.Sprint(bl, num, conc, err) })
			for _, s := range sgps {
				q, p := s.Prime(), s.SafePrime()
				shape := p.BitLen() == bl && p.Bit(bl-1) == 1 && p.Bit(bl-2) == 1 &&
					new(big.Int).Add(new(big.Int).Lsh(q, 1), bi(1)).Cmp(p) == 0 && q.ProbablyPrime(30) && p.ProbablyPrime(30) && s.Validate()
				r.Assert(shape, "common.GetRandomSafePrimesConcurrent/shape", "pair-(q,p=2q+1)-both-prime-p-exact-bit-length-top-two-bits-set", func() string { return fmt.Sprintf("bits=%d q=%s p=%s", bl, q, p) })
			}
		}
	}
	left := goroutinesSettle(base, 3*time.Second)
	r.Assert(left <= base, "common.GetRandomSafePrimesConcurrent/goroutines", "no-goroutine-left-behind", func() string { return fmt.Sprint(base, left) })
	// cancellation
	for _, delay := range []time.Duration{-1, 0, time.Millisecond, 5 * time.Millisecond, 50 * time.Millisecond} {
		ctx, cancel := context.WithCancel(context.Background())
		if delay < 0 {
			cancel()
		} else {
			time.AfterFunc(delay, cancel)
		}
		var err error
		start := time.Now()
		ok := within(20*time.Second, func() {
			_, err = common.GetRandomSafePrimesConcurrent(ctx, 1024, 2, 4, newLockedRand(rng.Int63()))
		})
		el := time.Since(start)
		cancel()
		r.Evals++
		r.Assert(ok && err != nil && el < delay+3*time.Second, "common.GetRandomSafePrimesConcurrent/cancel", "stops-promptly-with-error-on-cancellation", func() string { return fmt.Sprint(delay, ok, err, el) })
		left := goroutinesSettle(base, 3*time.Second)
		r.Assert(left <= base, "common.GetRandomSafePrimesConcurrent/cancel-goroutines", "no-goroutine-left-behind", func() string { return fmt.Sprint(delay, base, left) })
	}
	// failing entropy source
	for _, n := range []int{0, 1, 100, 5000} {
		var err error
		ok := within(20*time.Second, func() {
			_, err = common.GetRandomSafePrimesConcurrent(context.Background(), 512, 2, 3, &failingReader{r: newLockedRand(rng.Int63()), left: n})
		})
		r.Evals++
		r.Assert(ok && err != nil, "common.GetRandomSafePrimesConcurrent/entropy-failure", "stops-with-error-when-entropy-source-fails", func() string { return fmt.Sprint(n, ok, err) })
		left := goroutinesSettle(base, 3*time.Second)
		r.Assert(left <= base, "common.GetRandomSafePrimesConcurrent/entropy-goroutines", "no-goroutine-left-behind", func() string { return fmt.Sprint(n, base, left) })
	}
	// … failing for every worker at once: the source serves `good` bytes, then holds each Read until `conc` readers are
	// inside (or 300 ms have passed) and fails them all; for every shape of (primes asked, workers)
	for _, sh := range [][3]int{{1, 4, 0}, {1, 8, 64}, {2, 8, 0}, {2, 3, 0}, {3, 2, 0}, {1, 2, 300}} {
		br := &barrierReader{r: newLockedRand(rng.Int63()), good: sh[2], want: sh[1]}
		var err error
		ok := within(15*time.Second, func() {
			_, err = common.GetRandomSafePrimesConcurrent(context.Background(), 256, sh[0], sh[1], br)
		})
		r.Evals++
		r.Assert(ok && err != nil, "common.GetRandomSafePrimesConcurrent/entropy-failure-all-workers", "stops-with-error-when-entropy-source-fails", func() string {
			return fmt.Sprintf("numPrimes=%d concurrency=%d good-bytes=%d: returned=%v err=%v", sh[0], sh[1], sh[2], ok, err)
		})
		left := goroutinesSettle(base, 3*time.Second)
		r.Assert(left <= base, "common.GetRandomSafePrimesConcurrent/entropy-goroutines", "no-goroutine-left-behind", func() string { return fmt.Sprint(sh, base, left) })
		if !ok {
			break // the stuck workers would disturb the goroutine counts below
		}
	}
	// samplers
	bounds := []*big.Int{}
	for b := int64(1); b <= 40; b++ {
		bounds = append(bounds, bi(b))
	}
	bounds = append(bounds, bi(49), bi(81), bi(125), bi(128), bi(243), bi(1024), new(big.Int).Lsh(bi(1), 255), loadFixtures()[0].NTildei, loadFixtures()[0].PaillierSK.N)
	for _, b := range bounds {
		draws := 20
		if b.BitLen() > 64 {
			draws = 4
		}
		for d := 0; d < draws; d++ {
			src := rand.New(rand.NewSource(rng.Int63()))
			var v *big.Int
			ok := within(10*time.Second, func() { v = common.GetRandomPositiveInt(src, b) })
			r.Evals++
			r.Assert(ok && v != nil && v.Sign() >= 0 && v.Cmp(b) < 0, "common.GetRandomPositiveInt/range", "sampler-in-[0,bound)", func() string { return fmt.Sprint(b, v) })
			if b.Cmp(bi(1)) > 0 {
				var u *big.Int
				ok = within(10*time.Second, func() { u = common.GetRandomPositiveRelativelyPrimeInt(src, b) })
				r.Assert(ok && u != nil && u.Sign() > 0 && u.Cmp(b) < 0 && new(big.Int).GCD(nil, nil, u, b).Cmp(bi(1)) == 0, "common.GetRandomPositiveRelativelyPrimeInt/range", "sampler-unit-in-[1,bound)", func() string { return fmt.Sprint(b, u) })
			}
			if b.Bit(0) == 1 && b.Cmp(bi(3)) >= 0 && !isSquare(b) {
				var w *big.Int
				ok = within(10*time.Second, func() { w = common.GetRandomQuadraticNonResidue(src, b) })
				r.Assert(ok && w != nil && big.Jacobi(w, b) == -1 && w.Cmp(b) < 0, "common.GetRandomQuadraticNonResidue/jacobi", "sampler-has-jacobi-minus-one", func() string { return fmt.Sprint(b, w) })
			}
		}
		for _, bits := range []int{1, 2, 8, 255, 256} {
			v := common.MustGetRandomInt(rand.New(rand.NewSource(rng.Int63())), bits)
			r.Assert(v.Sign() >= 0 && v.BitLen() <= bits, "common.MustGetRandomInt/range", "sampler-below-2^bits", nil)
		}
	}
	// exact sampler ops against the model: the candidate values are scripted through the io.Reader
	for _, b := range bounds {
		if b.BitLen() > 300 {
			continue
		}
		for d := 0; d < 3; d++ {
			cands := make([]*big.Int, 6)
			for i := range cands {
				cands[i] = randInt(rng, b.BitLen())
			}
			r.Do("common.GetRandomPositiveInt/scripted", true, "sample_positive", eInt(b), eInts(cands))
			if b.Cmp(bi(1)) > 0 {
				r.Do("common.GetRandomPositiveRelativelyPrimeInt/scripted", true, "sample_relprime", eInt(b), eInts(cands))
			}
			if b.Bit(0) == 1 && b.Cmp(bi(3)) >= 0 {
				r.Do("common.GetRandomQuadraticNonResidue/scripted", true, "sample_qnr", eInt(b), eInts(cands))
			}
		}
	}
	// NTilde generation from small safe primes
	for i := 0; i < 5; i++ {
		sg, err := common.GetRandomSafePrimesConcurrent(context.Background(), 32+4*i, 2, 2, newLockedRand(rng.Int63()))
		if err != nil || sg[0].SafePrime().Cmp(sg[1].SafePrime()) == 0 {
			continue
		}
		N, h1, h2, err := crypto.GenerateNTildei(rand.New(rand.NewSource(rng.Int63())), [2]*big.Int{sg[0].SafePrime(), sg[1].SafePrime()})
		pq := new(big.Int).Mul(sg[0].Prime(), sg[1].Prime())
		ok := err == nil && N.Cmp(new(big.Int).Mul(sg[0].SafePrime(), sg[1].SafePrime())) == 0 &&
			new(big.Int).Exp(h1, pq, N).Cmp(bi(1)) == 0 && new(big.Int).Exp(h2, pq, N).Cmp(bi(1)) == 0 &&
			new(big.Int).GCD(nil, nil, h1, N).Cmp(bi(1)) == 0 && new(big.Int).GCD(nil, nil, h2, N).Cmp(bi(1)) == 0
		r.Evals++
		r.Assert(ok, "crypto.GenerateNTildei/structure", "ntilde-h1-h2-structure", func() string { return fmt.Sprint(N, h1, h2, err) })
	}
	// pre-parameters: the vendored outputs of the library's generator
	for i, fx := range loadFixtures() {
		pp := fx.LocalPreParams
		checkPreParams(r, fmt.Sprintf("vendored-preparams-%d", i), &pp)
		r.Assert(pp.ValidateWithProof(), "vendored-preparams/validate", "preparams-validate", nil)
		r.Evals++
		r.Distinct++
	}
	if thorough {
		var pp *ecdsakeygen.LocalPreParams
		var err error
		ok := within(25*time.Minute, func() {
			pp, err = ecdsakeygen.GeneratePreParamsWithContextAndRandom(context.Background(), newLockedRand(rng.Int63()), 16)
		})
		r.Evals++
		r.Assert(ok && err == nil && pp != nil, "keygen.GeneratePreParams/returns", "full-size-preparams-generated", func() string { return fmt.Sprint(ok, err) })
		if pp != nil {
			checkPreParams(r, "fresh-preparams", pp)
		}
		// and cancellation of the full generator
		ctx, cancel := context.WithTimeout(context.Background(), 50*time.Millisecond)
		okc := within(30*time.Second, func() { _, err = ecdsakeygen.GeneratePreParamsWithContext(ctx, 8) })
		cancel()
		r.Assert(okc && err != nil, "keygen.GeneratePreParams/cancel", "stops-promptly-with-error-on-cancellation", func() string { return fmt.Sprint(okc, err) })
	}
	left = goroutinesSettle(base, 5*time.Second)
	r.Assert(left <= base, "c19/goroutines-at-end", "no-goroutine-left-behind", func() string { return fmt.Sprint(base, left) })
}

func isSquare(n *big.Int) bool {
	s := new(big.Int).Sqrt(n)
	return s.Mul(s, s).Cmp(n) == 0
}
