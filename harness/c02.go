package main

import (
	"bytes"
	"crypto/ed25519"
	"crypto/sha512"
	"fmt"
	"math/big"
	"math/rand"

	"github.com/bnb-chain/tss-lib/v2/common"
	"github.com/bnb-chain/tss-lib/v2/crypto"
	eddsakeygen "github.com/bnb-chain/tss-lib/v2/eddsa/keygen"
	"github.com/bnb-chain/tss-lib/v2/tss"
)

func init() {
	goOps["ed25519_verify"] = func(a []string) string {
		pub := dBytes(a[0])
		if len(pub) != 32 {
			return "false"
		}
		return eBool(ed25519.Verify(ed25519.PublicKey(pub), dBytes(a[1]), dBytes(a[2])))
	}
	props["C02"] = runC02
}

// 32-byte RFC 8032 encoding of an Edwards point, computed independently of the library's helpers
func edEncode(p *crypto.ECPoint) []byte {
	y := make([]byte, 32)
	p.Y().FillBytes(y)
	for i, j := 0, 31; i < j; i, j = i+1, j-1 {
		y[i], y[j] = y[j], y[i]
	}
	if p.X().Bit(0) == 1 {
		y[31] |= 0x80
	}
	return y
}

func runEddsaSigning(rng *rand.Rand, ks *edKeySet, subset []int, msg *big.Int, fullLen int, st Strategy) (*Net, *sigOutcome) {
	un := make(tss.UnSortedPartyIDs, len(subset))
	for a, j := range subset {
		un[a] = tss.NewPartyID(ks.pids[j].Id, ks.pids[j].Moniker, new(big.Int).SetBytes(ks.pids[j].Key))
	}
	rng.Shuffle(len(un), func(i, j int) { un[i], un[j] = un[j], un[i] })
	pids := tss.SortPartyIDs(un)
	keys := make([]eddsakeygen.LocalPartySaveData, len(pids))
	for a, id := range pids {
		for j, p := range ks.pids {
			if bytes.Equal(p.Key, id.Key) {
				keys[a] = ks.keys[j]
			}
		}
	}
	net := eddsaSigningNet(rng, keys, pids, ks.t, msg, fullLen)
	net.Run(rng, st, 200000)
	out := &sigOutcome{panics: net.Panics}
	for _, nd := range net.Nodes {
		for _, e := range nd.Ends {
			out.sigs = append(out.sigs, e.(*common.SignatureData))
		}
		if nd.Err != nil {
			out.errs = append(out.errs, errDesc(nd.Err))
		}
		out.emitted = append(out.emitted, nd.Emitted)
	}
	return net, out
}

func checkEddsaSignature(r *Run, what string, net *Net, out *sigOutcome, pub *crypto.ECPoint, m *big.Int, fullLen int) {
	n := len(net.Nodes)
	r.Assert(len(out.sigs) == n && len(out.errs) == 0 && len(out.panics) == 0, what+"/completes", "every-signer-finishes-exactly-once", func() string {
		return fmt.Sprintf("sigs=%d/%d errs=%v panics=%v", len(out.sigs), n, out.errs, out.panics)
	})
	if len(out.sigs) == 0 {
		return
	}
	s0 := out.sigs[0]
	for i, s := range out.sigs {
		r.Assert(bytes.Equal(s.Signature, s0.Signature) && bytes.Equal(s.M, s0.M), what+"/same-output", "all-signers-output-the-same-signature", func() string { return fmt.Sprint("signer ", i) })
	}
	r.Assert(len(s0.Signature) == 64, what+"/width", "signature-is-64-bytes", nil)
	want := m.Bytes()
	if fullLen > 0 {
		want = make([]byte, fullLen)
		m.FillBytes(want)
	}
	r.Assert(bytes.Equal(s0.M, want), what+"/echo", "echoed-message-bytes", func() string { return eBytes(s0.M) + " want " + eBytes(want) })
	pub32 := edEncode(pub)
	r.Assert(ed25519.Verify(ed25519.PublicKey(pub32), s0.M, s0.Signature), what+"/verify", "standard-ed25519-verifier-accepts", func() string {
		return fmt.Sprintf("pub=%x msg=%x sig=%x", pub32, s0.M, s0.Signature)
	})
	g, _, _ := r.Do(what+"/verify", true, "ed25519_verify", eBytes(pub32), eBytes(s0.M), eBytes(s0.Signature))
	r.Assert(g == "true", what+"/verify-model", "rfc8032-model-verifier-accepts", nil)
	r.Traces++
	// a flipped message bit must not verify (the signature is bound to exactly the echoed bytes)
	if len(s0.M) > 0 {
		alt := append([]byte{}, s0.M...)
		alt[0] ^= 1
		g2, _, _ := r.Do(what+"/verify-other-message", true, "ed25519_verify", eBytes(pub32), eBytes(alt), eBytes(s0.Signature))
		r.Assert(g2 == "false", what+"/verify-other-message", "other-message-rejected", nil)
	}
}

func runC02(r *Run, rng *rand.Rand, thorough bool) {
	r.Rule = "whole EdDSA signing runs on keys produced by the library's own key generation: (n,t) with n ≤ 4 (≤ 6 thorough), signer subsets of size ≥ t+1, messages {1 byte, 31/32/33/64/200 bytes, leading zero bytes with and without fullBytesLen}, delivery strategies of C07, plus directed runs whose nonce shares are steered so that the encoded R has a zero top byte (with either sign bit), and directed runs whose message is searched so that S has one or two zero top bytes; every signature is judged by Go's crypto/ed25519 and by the Lean model's RFC 8032 verifier (own SHA-512 and curve arithmetic); non-trivial = distinct verify op; direct assertions: identical 64-byte output at every signer, standard verifier accepts over exactly the echoed bytes"
	maxN := 4
	if thorough {
		maxN = 6
	}
	run := 0
	for n := 2; n <= maxN; n++ {
		for t := 1; t < n; t++ {
			if !thorough && (n+t)%2 == 0 && n > 2 {
				continue
			}
			ks, err := genEdKeys(rng, n, t, run, Strategy{Name: "fifo", Pick: pickFIFO})
			if err != nil {
				r.Assert(false, "eddsa-keygen/completes", "keygen-completes", func() string { return err.Error() })
				continue
			}
			subs := append(combos(n, t+1), combos(n, n)...)
			lens := []int{1, 31, 32, 33, 64, 200, 3}
			for si, sub := range subs {
				if !thorough && si > 1 {
					break
				}
				ml := lens[run%len(lens)]
				mb := randBytes(rng, ml)
				fullLen := -1
				switch run % 3 {
				case 1: // leading zero bytes, full length requested
					mb[0] = 0
					if ml > 1 {
						mb[1] = 0
					}
					fullLen = ml
				case 2: // leading zero byte, no full length: the echoed message is the stripped value
					mb[0] = 0
				}
				m := new(big.Int).SetBytes(mb)
				sts := strategies(len(sub), rng)
				st := sts[run%len(sts)]
				run++
				net, out := runEddsaSigning(rng, ks, sub, m, fullLen, st)
				r.Dist["eddsa-signing/"+st.Name]++
				checkEddsaSignature(r, "eddsa-signing", net, out, ks.keys[0].EDDSAPub, m, fullLen)
				if len(r.Samples) < 8 {
					r.Samples = append(r.Samples, fmt.Sprintf("eddsa signing n=%d t=%d signers=%v msg-bytes=%d fullBytesLen=%d schedule=%s", n, t, sub, ml, fullLen, st.Name))
				}
			}
		}
	}
	// committees larger than t+1, many times: the sum of k partial signatures ranges over [0, k·L), so how often the
	// sum has to be reduced depends on the number of signers, not on the threshold (the standard verifier wants S < L)
	{
		shapes := [][3]int{{3, 1, 24}, {4, 1, 10}}
		if thorough {
			shapes = [][3]int{{3, 1, 80}, {4, 1, 40}, {4, 2, 30}, {5, 2, 40}, {6, 2, 20}}
		}
		for _, sh := range shapes {
			n, t, reps := sh[0], sh[1], sh[2]
			ks, err := genEdKeys(rng, n, t, 0, Strategy{Name: "fifo", Pick: pickFIFO})
			if err != nil {
				continue
			}
			all := combos(n, n)[0]
			L := tss.Edwards().Params().N
			for k := 0; k < reps; k++ {
				m := new(big.Int).SetBytes(randBytes(rng, 32))
				net, out := runEddsaSigning(rng, ks, all, m, -1, Strategy{Name: "fifo", Pick: pickFIFO})
				r.Dist[fmt.Sprintf("eddsa-signing/all-%d-of-(%d,%d)", n, n, t)]++
				checkEddsaSignature(r, "eddsa-signing/large-committee", net, out, ks.keys[0].EDDSAPub, m, -1)
				for _, sd := range out.sigs {
					if len(sd.Signature) == 64 {
						le := make([]byte, 32)
						for i := range le {
							le[i] = sd.Signature[63-i]
						}
						S := new(big.Int).SetBytes(le)
						r.Assert(S.Cmp(L) < 0, "eddsa-signing/large-committee/S-canonical", "S-below-the-group-order", func() string {
							return fmt.Sprintf("all %d holders of a (%d,%d) key sign: S = %s >= L", n, n, t, eInt(S))
						})
						break
					}
				}
			}
		}
	}
	// directed: nonce shares steered so that the encoding of R hits the boundaries of the 32-byte form
	// (top byte 0x00: y < 2^248 and x even; top byte 0x80: y < 2^248 and x odd; thorough: two zero top bytes)
	if ks, err := genEdKeys(rng, 3, 1, 1, Strategy{Name: "fifo", Pick: pickFIFO}); err == nil {
		q := tss.Edwards().Params().N
		shapes := []struct {
			name string
			ok   func(e []byte) bool
		}{
			{"R-top-byte-00", func(e []byte) bool { return e[31] == 0x00 }},
			{"R-top-byte-80", func(e []byte) bool { return e[31] == 0x80 }},
		}
		if thorough {
			shapes = append(shapes, struct {
				name string
				ok   func(e []byte) bool
			}{"R-two-top-bytes-00", func(e []byte) bool { return e[31] == 0 && e[30] == 0 }})
		}
		for si, sh := range shapes {
			sub := [][]int{{0, 1}, {0, 2}, {1, 2}, {0, 1, 2}}[(si+int(r.Seed))%4]
			un := make(tss.UnSortedPartyIDs, len(sub))
			for a, j := range sub {
				un[a] = ks.pids[j]
			}
			pids := tss.SortPartyIDs(un)
			keys := make([]eddsakeygen.LocalPartySaveData, 0, len(pids))
			for _, id := range pids {
				for j, p := range ks.pids {
					if bytes.Equal(p.Key, id.Key) {
						keys = append(keys, ks.keys[j])
					}
				}
			}
			mb := randBytes(rng, 32)
			m := new(big.Int).SetBytes(mb)
			net := eddsaSigningNet(rng, keys, pids, ks.t, m, len(mb))
			sum := new(big.Int)
			for j := 1; j < len(net.Nodes); j++ {
				rj := new(big.Int).Add(below(rng, new(big.Int).Sub(q, bi(2))), bi(1))
				sum.Add(sum, rj)
				net.Nodes[j].Rand.prefix = padTo(rj, 256)
			}
			var r0 *big.Int
			var target *crypto.ECPoint
			for tries := 0; tries < 400000 && target == nil; tries++ {
				c := new(big.Int).Add(below(rng, new(big.Int).Sub(q, bi(2))), bi(1))
				tot := new(big.Int).Mod(new(big.Int).Add(c, sum), q)
				if tot.Sign() == 0 {
					continue
				}
				pt := crypto.ScalarBaseMult(tss.Edwards(), tot)
				if sh.ok(edEncode(pt)) {
					r0, target = c, pt
				}
			}
			if target == nil {
				r.Note("steering: no nonce found for %s", sh.name)
				continue
			}
			net.Nodes[0].Rand.prefix = padTo(r0, 256)
			net.Run(rng, Strategy{Name: "fifo", Pick: pickFIFO}, 200000)
			out := &sigOutcome{panics: net.Panics}
			for _, nd := range net.Nodes {
				for _, e := range nd.Ends {
					out.sigs = append(out.sigs, e.(*common.SignatureData))
				}
				if nd.Err != nil {
					out.errs = append(out.errs, errDesc(nd.Err))
				}
			}
			r.Dist["eddsa-signing/directed-"+sh.name]++
			checkEddsaSignature(r, "eddsa-signing/directed", net, out, ks.keys[0].EDDSAPub, m, len(mb))
			if len(out.sigs) > 0 && len(out.sigs[0].Signature) == 64 {
				want := edEncode(target)
				r.Assert(bytes.Equal(out.sigs[0].Signature[:32], want), "eddsa-signing/directed/steering", "steered-run-produced-the-intended-R", func() string {
					return fmt.Sprintf("%s: R half of the signature %x, the aggregate nonce point encodes as %x", sh.name, out.sigs[0].Signature[:32], want)
				})
			}
		}
	}
	// directed: the message is searched (nonce shares scripted, secret key reconstructed from the shares) so that the
	// aggregate S = r + h·x mod q has one, respectively two, zero top bytes: the 32-byte little-endian form must still be complete
	if ks, err := genEdKeys(rng, 3, 1, 2, Strategy{Name: "fifo", Pick: pickFIFO}); err == nil {
		q := tss.Edwards().Params().N
		ids := make([]*big.Int, len(ks.keys))
		xis := make([]*big.Int, len(ks.keys))
		for i := range ks.keys {
			ids[i] = new(big.Int).Mod(ks.keys[i].ShareID, q)
			xis[i] = ks.keys[i].Xi
		}
		x := lagrangeZero(q, ids[:2], xis[:2])
		encA := edEncode(ks.keys[0].EDDSAPub)
		limits := []int{248}
		if thorough || r.Seed%2 == 1 {
			limits = append(limits, 240)
		}
		for _, lim := range limits {
			sub := []int{0, 2}
			un := make(tss.UnSortedPartyIDs, len(sub))
			for a, j := range sub {
				un[a] = ks.pids[j]
			}
			pids := tss.SortPartyIDs(un)
			keys := make([]eddsakeygen.LocalPartySaveData, 0, len(pids))
			for _, id := range pids {
				for j, p := range ks.pids {
					if bytes.Equal(p.Key, id.Key) {
						keys = append(keys, ks.keys[j])
					}
				}
			}
			rs := make([]*big.Int, len(pids))
			rtot := new(big.Int)
			for j := range rs {
				rs[j] = new(big.Int).Add(below(rng, new(big.Int).Sub(q, bi(2))), bi(1))
				rtot.Add(rtot, rs[j])
			}
			rtot.Mod(rtot, q)
			if x == nil || rtot.Sign() == 0 {
				continue
			}
			encR := edEncode(crypto.ScalarBaseMult(tss.Edwards(), rtot))
			var mb []byte
			var wantS *big.Int
			for k := 0; k < 400000 && mb == nil; k++ {
				cand := randBytes(rng, 32)
				cand[0] |= 0x80
				hh := sha512.Sum512(append(append(append([]byte{}, encR...), encA...), cand...))
				for i, j := 0, 63; i < j; i, j = i+1, j-1 {
					hh[i], hh[j] = hh[j], hh[i]
				}
				h := new(big.Int).Mod(new(big.Int).SetBytes(hh[:]), q)
				S := new(big.Int).Mod(new(big.Int).Add(rtot, new(big.Int).Mul(h, x)), q)
				if S.BitLen() <= lim && S.Sign() > 0 {
					mb, wantS = cand, S
				}
			}
			if mb == nil {
				r.Note("steering: no message found for S < 2^%d", lim)
				continue
			}
			m := new(big.Int).SetBytes(mb)
			net := eddsaSigningNet(rng, keys, pids, ks.t, m, len(mb))
			for j := range net.Nodes {
				net.Nodes[j].Rand.prefix = padTo(rs[j], 256)
			}
			net.Run(rng, Strategy{Name: "fifo", Pick: pickFIFO}, 200000)
			out := &sigOutcome{panics: net.Panics}
			for _, nd := range net.Nodes {
				for _, e := range nd.Ends {
					out.sigs = append(out.sigs, e.(*common.SignatureData))
				}
				if nd.Err != nil {
					out.errs = append(out.errs, errDesc(nd.Err))
				}
			}
			r.Dist[fmt.Sprintf("eddsa-signing/directed-S-below-2^%d", lim)]++
			checkEddsaSignature(r, "eddsa-signing/directed-S", net, out, ks.keys[0].EDDSAPub, m, len(mb))
			if len(out.sigs) > 0 && len(out.sigs[0].Signature) == 64 {
				le := make([]byte, 32)
				wantS.FillBytes(le)
				for i, j := 0, 31; i < j; i, j = i+1, j-1 {
					le[i], le[j] = le[j], le[i]
				}
				r.Assert(bytes.Equal(out.sigs[0].Signature[32:], le), "eddsa-signing/directed-S/steering", "steered-run-produced-the-intended-S", func() string {
					return fmt.Sprintf("S half %x, predicted %x", out.sigs[0].Signature[32:], le)
				})
			}
		}
	}
}
