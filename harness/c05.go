package main

import (
	"bufio"
	"bytes"
	"crypto/ecdsa"
	"crypto/ed25519"
	"encoding/json"
	"fmt"
	"math/big"
	"math/rand"
	"os"
	"os/exec"
	"sort"
	"strings"
	"time"

	"google.golang.org/protobuf/proto"
	"google.golang.org/protobuf/reflect/protoreflect"

	"github.com/bnb-chain/tss-lib/v2/common"
	"github.com/bnb-chain/tss-lib/v2/crypto"
	ecdsakeygen "github.com/bnb-chain/tss-lib/v2/ecdsa/keygen"
	eddsakeygen "github.com/bnb-chain/tss-lib/v2/eddsa/keygen"
	"github.com/bnb-chain/tss-lib/v2/tss"
)

func init() { props["C05"] = runC05 }

// an injection: protocol, deviating node, message type, field, element, kind
type injSpec struct {
	Proto string `json:"proto"`
	Dev   int    `json:"dev"`
	Type  string `json:"type"`
	Field string `json:"field"`
	Elem  int    `json:"elem"`
	Kind  string `json:"kind"` // +1 | random | other | empty | mirror | drop-field
	Seed  int64  `json:"seed"`
	OneTo int    `json:"one_to,omitempty"` // k > 0: only the copy addressed to the recipient with committee index k-1 is altered
}

func (s injSpec) String() string {
	if s.OneTo > 0 {
		return fmt.Sprintf("%s dev=%d %s.%s[%d] %s only-to=%d seed=%d", s.Proto, s.Dev, s.Type, s.Field, s.Elem, s.Kind, s.OneTo-1, s.Seed)
	}
	return fmt.Sprintf("%s dev=%d %s.%s[%d] %s seed=%d", s.Proto, s.Dev, s.Type, s.Field, s.Elem, s.Kind, s.Seed)
}

type injResult struct {
	Spec      injSpec  `json:"spec"`
	Applied   bool     `json:"applied"`
	Errors    []string `json:"errors"`   // per honest node: errDesc
	Culprits  [][]int  `json:"culprits"` // per honest node with an error: culprit node indices
	Outputs   int      `json:"outputs"`  // honest nodes that produced an output
	BadOut    string   `json:"bad_out"`  // non-empty: an honest output violated its validity clause
	Panics    []string `json:"panics"`
	Stalled   bool     `json:"stalled"`
	SelfBlame int      `json:"self_blame"`
}

// rebuild a message with modified content, same routing
func rewrap(m tss.Message, content tss.MessageContent) tss.Message {
	meta := tss.MessageRouting{From: m.GetFrom(), To: m.GetTo(), IsBroadcast: m.IsBroadcast(),
		IsToOldCommittee: m.IsToOldCommittee(), IsToOldAndNewCommittees: m.IsToOldAndNewCommittees()}
	return tss.NewMessage(meta, content, tss.NewMessageWrapper(meta, content))
}

// byte fields (singular or repeated) of a message, by name
func byteFields(c tss.MessageContent) []protoreflect.FieldDescriptor {
	var out []protoreflect.FieldDescriptor
	fs := c.ProtoReflect().Descriptor().Fields()
	for i := 0; i < fs.Len(); i++ {
		if fs.Get(i).Kind() == protoreflect.BytesKind {
			out = append(out, fs.Get(i))
		}
	}
	return out
}

func mutateBytes(rng *rand.Rand, b []byte, kind string, donor []byte) []byte {
	switch kind {
	case "+1":
		return new(big.Int).Add(new(big.Int).SetBytes(b), big.NewInt(1)).Bytes()
	case "random":
		n := len(b)
		if n == 0 {
			n = 1
		}
		r := randBytes(rng, n)
		if r[0] == 0 {
			r[0] = 1
		}
		return r
	case "other":
		return append([]byte{}, donor...)
	case "empty":
		return []byte{}
	}
	if kind == "negq" || kind == "negp" {
		// the additive inverse modulo the group order / the field prime (shares, scalars / coordinates)
		c := tss.S256()
		if mutateOnEd {
			c = tss.Edwards()
		}
		m := c.Params().N
		if kind == "negp" {
			m = c.Params().P
		}
		v := new(big.Int).SetBytes(b)
		if v.Sign() == 0 || v.Cmp(m) >= 0 {
			return b
		}
		return new(big.Int).Sub(m, v).Bytes()
	}
	if strings.HasPrefix(kind, "g:") {
		return gridBytes(kind, b, mutateOnEd)
	}
	return b
}

// set by runInjection: the protocol of the current injection runs on edwards25519
var mutateOnEd bool

// tamper returns a modified copy of msg per spec; donor is the corresponding message of another party
func tamperMsg(rng *rand.Rand, m tss.Message, donor tss.Message, s injSpec) (tss.Message, bool) {
	pm := m.(tss.ParsedMessage)
	if s.Kind == "mirror" {
		if donor == nil {
			return m, false
		}
		// replay another participant's content as one's own
		return rewrap(m, proto.Clone(donor.(tss.ParsedMessage).Content()).(tss.MessageContent)), true
	}
	content := proto.Clone(pm.Content()).(tss.MessageContent)
	refl := content.ProtoReflect()
	fd := refl.Descriptor().Fields().ByName(protoreflect.Name(s.Field))
	if fd == nil {
		return m, false
	}
	var dref protoreflect.Message
	if donor != nil {
		dref = donor.(tss.ParsedMessage).Content().ProtoReflect()
	}
	if fd.IsList() {
		l := refl.Mutable(fd).List()
		if s.Kind == "drop-field" {
			refl.Clear(fd)
			return rewrap(m, content), true
		}
		if s.Elem >= l.Len() {
			return m, false
		}
		var dn []byte
		if dref != nil && dref.Get(fd).List().Len() > s.Elem {
			dn = dref.Get(fd).List().Get(s.Elem).Bytes()
		}
		old := l.Get(s.Elem).Bytes()
		nv := mutateBytes(rng, old, s.Kind, dn)
		if bytes.Equal(nv, old) {
			return m, false
		}
		l.Set(s.Elem, protoreflect.ValueOfBytes(nv))
	} else {
		if s.Kind == "drop-field" {
			refl.Clear(fd)
			return rewrap(m, content), true
		}
		var dn []byte
		if dref != nil {
			dn = dref.Get(fd).Bytes()
		}
		old := refl.Get(fd).Bytes()
		nv := mutateBytes(rng, old, s.Kind, dn)
		if bytes.Equal(nv, old) {
			return m, false
		}
		refl.Set(fd, protoreflect.ValueOfBytes(nv))
	}
	return rewrap(m, content), true
}

type c05Proto struct {
	name  string
	build func(rng *rand.Rand) *Net
	// validity of an honest output given the run (returns "" when fine)
	checkOut func(net *Net, honest []int) string
}

func c05Protos(rng *rand.Rand) []c05Proto {
	var out []c05Proto
	qEd := tss.Edwards().Params().N
	// EdDSA keygen 3 parties t=1
	out = append(out, c05Proto{name: "eddsa-keygen", build: func(r *rand.Rand) *Net { return eddsaKeygenNet(r, 3, 1, partyKeys(r, 3, 0, qEd)) },
		checkOut: func(net *Net, honest []int) string { return checkKeyOutputsEd(net, honest) }})
	edKs, err := genEdKeys(rng, 3, 1, 0, Strategy{Name: "fifo", Pick: pickFIFO})
	if err == nil {
		msg := big.NewInt(0xC0FFEE)
		out = append(out, c05Proto{name: "eddsa-signing", build: func(r *rand.Rand) *Net { return eddsaSigningNet(r, edKs.keys, edKs.pids, 1, msg, -1) },
			checkOut: func(net *Net, honest []int) string {
				for _, i := range honest {
					for _, e := range net.Nodes[i].Ends {
						sd := e.(*common.SignatureData)
						if !ed25519.Verify(ed25519.PublicKey(edEncode(edKs.keys[0].EDDSAPub)), sd.M, sd.Signature) {
							return fmt.Sprintf("node %d output a signature that does not verify", i)
						}
					}
				}
				return ""
			}})
		out = append(out, c05Proto{name: "eddsa-resharing", build: func(r *rand.Rand) *Net {
			keys := make([]eddsakeygen.LocalPartySaveData, 2)
			for i := range keys {
				keys[i] = edKs.keys[i]
				keys[i].Xi = new(big.Int).Set(edKs.keys[i].Xi)
			}
			net := eddsaResharingNet(r, keys, edKs.pids[:2], 1, makePIDs([]*big.Int{big.NewInt(5001), big.NewInt(5002), big.NewInt(5003)}, "N"), 1)
			for i := range keys {
				net.HeldXi = append(net.HeldXi, keys[i].Xi)
			}
			return net
		}, checkOut: func(net *Net, honest []int) string {
			if s := erasedWithoutKey(net, honest); s != "" {
				return s
			}
			for _, i := range honest {
				if net.Nodes[i].Role != "new" {
					continue
				}
				for _, e := range net.Nodes[i].Ends {
					k := e.(*eddsakeygen.LocalPartySaveData)
					if k.Xi == nil || !k.EDDSAPub.Equals(edKs.keys[0].EDDSAPub) {
						return fmt.Sprintf("new member %d saved another group key", i)
					}
					idx, err := k.OriginalIndex()
					if err != nil || !crypto.ScalarBaseMult(tss.Edwards(), new(big.Int).Mod(k.Xi, qEd)).Equals(k.BigXj[idx]) {
						return fmt.Sprintf("new member %d saved a share inconsistent with its public share point", i)
					}
				}
			}
			return ""
		}})
	}
	// ECDSA signing on the vendored key (3 signers)
	eks := fixtureEcKeys()
	msgE := big.NewInt(0xBADC0DE)
	out = append(out, c05Proto{name: "ecdsa-signing", build: func(r *rand.Rand) *Net { return ecdsaSigningNet(r, eks.keys[:3], eks.pids[:3], eks.t, msgE, -1, nil) },
		checkOut: func(net *Net, honest []int) string {
			pk := ecdsa.PublicKey{Curve: tss.S256(), X: eks.keys[0].ECDSAPub.X(), Y: eks.keys[0].ECDSAPub.Y()}
			hash := make([]byte, 32)
			msgE.FillBytes(hash)
			for _, i := range honest {
				for _, e := range net.Nodes[i].Ends {
					sd := e.(*common.SignatureData)
					if !ecdsa.Verify(&pk, hash, new(big.Int).SetBytes(sd.R), new(big.Int).SetBytes(sd.S)) {
						return fmt.Sprintf("node %d output a signature that does not verify", i)
					}
				}
			}
			return ""
		}})
	out = append(out, c05Proto{name: "ecdsa-resharing", build: func(r *rand.Rand) *Net {
		keys := make([]ecdsakeygen.LocalPartySaveData, 3)
		for i := range keys {
			keys[i] = eks.keys[i]
			keys[i].Xi = new(big.Int).Set(eks.keys[i].Xi)
		}
		net := ecdsaResharingNet(r, keys, eks.pids[:3], eks.t, makePIDs([]*big.Int{big.NewInt(6001), big.NewInt(6002), big.NewInt(6003)}, "N"), 1, true, 1)
		for i := range keys {
			net.HeldXi = append(net.HeldXi, keys[i].Xi)
		}
		return net
	}, checkOut: func(net *Net, honest []int) string {
		if s := erasedWithoutKey(net, honest); s != "" {
			return s
		}
		for _, i := range honest {
			if net.Nodes[i].Role != "new" {
				continue
			}
			for _, e := range net.Nodes[i].Ends {
				k := e.(*ecdsakeygen.LocalPartySaveData)
				if k.Xi == nil || !k.ECDSAPub.Equals(eks.keys[0].ECDSAPub) {
					return fmt.Sprintf("new member %d saved another group key", i)
				}
				idx, err := k.OriginalIndex()
				if err != nil || !crypto.ScalarBaseMult(tss.S256(), k.Xi).Equals(k.BigXj[idx]) {
					return fmt.Sprintf("new member %d saved a share inconsistent with its public share point", i)
				}
			}
		}
		return ""
	}})
	out = append(out, c05Proto{name: "ecdsa-keygen", build: func(r *rand.Rand) *Net {
		return ecdsaKeygenNet(r, 3, 1, partyKeys(r, 3, 0, tss.S256().Params().N), 0)
	}, checkOut: func(net *Net, honest []int) string {
		for _, i := range honest {
			for _, e := range net.Nodes[i].Ends {
				k := e.(*ecdsakeygen.LocalPartySaveData)
				idx, err := k.OriginalIndex()
				if err != nil || !crypto.ScalarBaseMult(tss.S256(), k.Xi).Equals(k.BigXj[idx]) {
					return fmt.Sprintf("node %d saved a share inconsistent with its public share point", i)
				}
			}
		}
		return ""
	}})
	return out
}

func checkKeyOutputsEd(net *Net, honest []int) string {
	q := tss.Edwards().Params().N
	var first *eddsakeygen.LocalPartySaveData
	for _, i := range honest {
		for _, e := range net.Nodes[i].Ends {
			k := e.(*eddsakeygen.LocalPartySaveData)
			idx, err := k.OriginalIndex()
			if err != nil || !crypto.ScalarBaseMult(tss.Edwards(), new(big.Int).Mod(k.Xi, q)).Equals(k.BigXj[idx]) {
				return fmt.Sprintf("node %d saved a share inconsistent with its public share point", i)
			}
			if first == nil {
				first = k
			} else if !first.EDDSAPub.Equals(k.EDDSAPub) || ePoints(first.BigXj) != ePoints(k.BigXj) {
				return fmt.Sprintf("honest node %d saved key data that differs from another honest node's", i)
			}
		}
	}
	return ""
}

// enumerate injection specs for a protocol from one honest reference run
func enumerateSpecs(rng *rand.Rand, p c05Proto, perField int) []injSpec {
	net := p.build(rand.New(rand.NewSource(11)))
	net.Run(rand.New(rand.NewSource(1)), Strategy{Name: "fifo", Pick: pickFIFO}, 300000)
	var specs []injSpec
	kinds := []string{"+1", "random", "other", "empty", "negq", "negp"}
	for dev := range net.Nodes {
		seen := map[string]bool{}
		for _, m := range net.Nodes[dev].Emitted {
			t := shortType(m.Type())
			if seen[t] {
				continue
			}
			seen[t] = true
			c := m.(tss.ParsedMessage).Content()
			for _, fd := range byteFields(c) {
				n := 1
				if fd.IsList() {
					n = c.ProtoReflect().Get(fd).List().Len()
				}
				idxs := []int{}
				for e := 0; e < n; e++ {
					idxs = append(idxs, e)
				}
				if len(idxs) > perField {
					rng.Shuffle(len(idxs), func(i, j int) { idxs[i], idxs[j] = idxs[j], idxs[i] })
					idxs = idxs[:perField]
				}
				for _, e := range idxs {
					for _, k := range kinds {
						specs = append(specs, injSpec{Proto: p.name, Dev: dev, Type: t, Field: string(fd.Name()), Elem: e, Kind: k, Seed: rng.Int63()})
					}
				}
				if fd.IsList() {
					specs = append(specs, injSpec{Proto: p.name, Dev: dev, Type: t, Field: string(fd.Name()), Kind: "drop-field", Seed: rng.Int63()})
				}
			}
			specs = append(specs, injSpec{Proto: p.name, Dev: dev, Type: t, Kind: "mirror", Seed: rng.Int63()})
			// point-to-point messages: the same alteration in the copy for ONE recipient only (the others get the
			// honest message), for a recipient other than the one sharing the deviator's index
			if len(m.GetTo()) == 1 && !m.IsBroadcast() {
				nrec := 0
				for _, m2 := range net.Nodes[dev].Emitted {
					if shortType(m2.Type()) == t && len(m2.GetTo()) == 1 && m2.GetTo()[0].Index+1 > nrec {
						nrec = m2.GetTo()[0].Index + 1
					}
				}
				own := net.Nodes[dev].ID.Index
				for _, fd := range byteFields(c) {
					for _, k := range []string{"+1", "negq"} {
						for off := 1; off <= 2 && off < nrec; off++ {
							specs = append(specs, injSpec{Proto: p.name, Dev: dev, Type: t, Field: string(fd.Name()), Kind: k, Seed: rng.Int63(), OneTo: (own+off)%nrec + 1})
						}
					}
				}
			}
		}
	}
	return specs
}

// honest reference run per protocol (donor messages for "other"/"mirror"), built once per process
var refRuns = map[string]*Net{}

var protoRegistry = map[string]c05Proto{}

func refRunOf(p c05Proto) *Net {
	ref := refRuns[p.name]
	if ref == nil {
		ref = p.build(rand.New(rand.NewSource(11)))
		ref.Run(rand.New(rand.NewSource(1)), Strategy{Name: "fifo", Pick: pickFIFO}, 300000)
		refRuns[p.name] = ref
	}
	return ref
}

// run one injection in-process
func runInjection(p c05Proto, s injSpec) injResult {
	if s.Kind == "junk" {
		return runJunk(p, s)
	}
	if s.Kind == "commit-arity" {
		return runCommitArity(p, s)
	}
	rng := rand.New(rand.NewSource(s.Seed))
	net := p.build(rand.New(rand.NewSource(11)))
	res := injResult{Spec: s}
	net.StopOnError = true
	mutateOnEd = strings.HasPrefix(p.name, "eddsa")
	// the donor for "other"/"mirror": the corresponding message of another party, taken from a reference run
	ref := refRunOf(p)
	var donor tss.Message
	for off := 1; off < len(ref.Nodes) && donor == nil; off++ {
		o := (s.Dev + off) % len(ref.Nodes)
		if ref.Nodes[o].Role != ref.Nodes[s.Dev].Role {
			continue
		}
		for _, m := range ref.Nodes[o].Emitted {
			if shortType(m.Type()) == s.Type {
				donor = m
				break
			}
		}
	}
	net.Tamper = func(from int, m tss.Message) []tss.Message {
		if from != s.Dev || shortType(m.Type()) != s.Type {
			return []tss.Message{m}
		}
		if s.OneTo > 0 && (len(m.GetTo()) != 1 || m.GetTo()[0].Index != s.OneTo-1) {
			return []tss.Message{m}
		}
		tm, ok := tamperMsg(rng, m, donor, s)
		if ok {
			res.Applied = true
		}
		return []tss.Message{tm}
	}
	done := make(chan bool, 1)
	go func() {
		net.Run(rand.New(rand.NewSource(1)), Strategy{Name: "fifo", Pick: pickFIFO}, 300000)
		done <- true
	}()
	select {
	case <-done:
	case <-time.After(120 * time.Second):
		res.Stalled = true
		res.Panics = append(res.Panics, "run did not return within 120 s")
		return res
	}
	res.Panics = net.Panics
	var honest []int
	for i, nd := range net.Nodes {
		if i == s.Dev {
			continue
		}
		honest = append(honest, i)
		if nd.Err != nil {
			res.Errors = append(res.Errors, fmt.Sprintf("%s: %s", nd.Name, errDesc(nd.Err)))
			var cs []int
			for _, c := range nd.Err.Culprits() {
				if c == nil {
					cs = append(cs, -1)
					continue
				}
				// map the culprit PartyID to a node index
				idx := -2
				for k, o := range net.Nodes {
					if bytes.Equal(o.ID.Key, c.Key) {
						idx = k
					}
				}
				cs = append(cs, idx)
			}
			// "itself": the reporting party naming itself counts as naming nobody, but only for the library's
			// local assertions (a failed final self-check, a local generation failure) - never for the failed
			// verification of something a peer sent
			localAssertion := false
			for _, m := range []string{"U doesn't equal T", "assertion failed: V_0 != y", "read BigXj failed", "pre-params generation failed", "is not satisfied by the key count", "not in the old or the new committee"} {
				localAssertion = localAssertion || strings.Contains(nd.Err.Error(), m)
			}
			var cs2 []int
			for _, c := range cs {
				if c != i || !localAssertion {
					cs2 = append(cs2, c)
				} else {
					res.SelfBlame++
				}
			}
			cs = cs2
			sort.Ints(cs)
			res.Culprits = append(res.Culprits, cs)
		}
		if len(nd.Ends) > 0 {
			res.Outputs++
		}
	}
	res.BadOut = p.checkOut(net, honest)
	return res
}

// child entry: runs the given specs, appending one JSON line per finished injection
func c05Child(specFile, outFile string) {
	b, err := os.ReadFile(specFile)
	if err != nil {
		os.Exit(3)
	}
	var specs []injSpec
	if err := json.Unmarshal(b, &specs); err != nil {
		os.Exit(3)
	}
	f, err := os.OpenFile(outFile, os.O_APPEND|os.O_CREATE|os.O_WRONLY, 0o644)
	if err != nil {
		os.Exit(3)
	}
	defer f.Close()
	protos := map[string]c05Proto{}
	for _, p := range c06Protos(rand.New(rand.NewSource(5))) {
		protos[p.name] = p
		protoRegistry[p.name] = p
	}
	for _, s := range specs {
		p, ok := protos[s.Proto]
		if !ok {
			continue
		}
		r := runInjection(p, s)
		line, _ := json.Marshal(r)
		f.Write(append(line, '\n'))
		f.Sync()
	}
}

// runSpecsInChildren runs the injections in parallel child processes (6 per child, 12 children at a time); a child
// that dies is attributed to the injection it was running and the rest of its batch is re-run.
func runSpecsInChildren(r *Run, all []injSpec) (chan []injResult, []string) {
	scratch := os.Getenv("VERIF_SCRATCH")
	if scratch == "" {
		scratch, _ = os.MkdirTemp("/verif/.work", "c05-")
		defer os.RemoveAll(scratch)
	}
	self, _ := os.Executable()
	// batches in parallel child processes
	type batch struct{ specs []injSpec }
	var batches []batch
	bs := 6
	for i := 0; i < len(all); i += bs {
		j := i + bs
		if j > len(all) {
			j = len(all)
		}
		batches = append(batches, batch{all[i:j]})
	}
	results := make(chan []injResult, len(batches))
	crashes := make(chan string, len(all))
	sem := make(chan bool, 12)
	for bi, b := range batches {
		sem <- true
		go func(bi int, specs []injSpec) {
			defer func() { <-sem }()
			var got []injResult
			remaining := specs
			for attempt := 0; len(remaining) > 0 && attempt < len(specs)+1; attempt++ {
				sf := fmt.Sprintf("%s/specs-%d-%d.json", scratch, bi, attempt)
				of := fmt.Sprintf("%s/out-%d-%d.jsonl", scratch, bi, attempt)
				bz, _ := json.Marshal(remaining)
				os.WriteFile(sf, bz, 0o644)
				cmd := exec.Command(self, "child", "C05", sf, of)
				var stderr bytes.Buffer
				cmd.Stderr = &stderr
				err := cmd.Run()
				n := 0
				if f, e2 := os.Open(of); e2 == nil {
					sc := bufio.NewScanner(f)
					sc.Buffer(make([]byte, 1<<20), 1<<24)
					for sc.Scan() {
						var ir injResult
						if json.Unmarshal(sc.Bytes(), &ir) == nil {
							got = append(got, ir)
							n++
						}
					}
					f.Close()
				}
				if err == nil || n >= len(remaining) {
					break
				}
				// the child died while running remaining[n]
				tail := stderr.String()
				if i := strings.Index(tail, "goroutine "); i > 0 {
					tail = tail[:i]
				}
				if len(tail) > 600 {
					tail = tail[:600]
				}
				crashes <- remaining[n].String() + " :: " + strings.ReplaceAll(tail, "\n", " | ")
				remaining = remaining[n+1:]
			}
			results <- got
		}(bi, b.specs)
	}
	for i := 0; i < cap(sem); i++ {
		sem <- true
	}
	close(results)
	close(crashes)
	var crashed []string
	for c := range crashes {
		crashed = append(crashed, c)
	}
	return results, crashed
}

func runC05(r *Run, rng *rand.Rand, thorough bool) {
	r.Rule = "fault injection: one party deviates by altering one field of one message type (+1, random same-size, the value of another party's corresponding message, emptied, list removed) or by replaying another party's whole message; every protocol, every position, every byte field found by protobuf reflection (each element of list fields, sampled for long lists), for point-to-point messages also in the copy for ONE recipient only; injections run in child processes so that a crash in a library goroutine is attributed to its injection; non-trivial = one applied injection; the modelled round bodies (EdDSA keygen r3 and signing r3; ECDSA keygen r2/r3, signing r2/r3/5/7/9, resharing new-member r4/r5) re-judge what every honest party concluded in tampered runs; direct assertions: no honest output is invalid, an honest old member's share is erased only if every honest new member emitted key data, every reported error names nobody but the deviator, a detected alteration names exactly the deviator, no crash"
	blameCorrespondence(r, rng, thorough)
	blameCorrespondenceSg(r, rng, thorough)
	blameCorrespondenceEc(r, rng, thorough)
	blameCorrespondenceRsEc(r, rng, thorough)
	reshareForgery(r, rng, "ed")
	reshareForgery(r, rng, "ec")
	protos := c05Protos(rng)
	var all []injSpec
	for _, p := range protos {
		per := 1
		if thorough {
			per = 3
		}
		specs := enumerateSpecs(rng, p, per)
		rng.Shuffle(len(specs), func(i, j int) { specs[i], specs[j] = specs[j], specs[i] })
		if !thorough {
			// quick tier: stratified — per (message type, field) one injection by the first and one by the last of the
			// parties that send that type (attribution must not depend on the deviator's position), and one
			// whole-message mirror per type and position, with the alteration kind rotating
			lo, hi := map[string]int{}, map[string]int{}
			for _, sp := range specs {
				if v, ok := lo[sp.Type]; !ok || sp.Dev < v {
					lo[sp.Type] = sp.Dev
				}
				if v, ok := hi[sp.Type]; !ok || sp.Dev > v {
					hi[sp.Type] = sp.Dev
				}
			}
			seen := map[string]bool{}
			var pick []injSpec
			for _, sp := range specs {
				if sp.Dev != lo[sp.Type] && sp.Dev != hi[sp.Type] {
					continue
				}
				k := fmt.Sprintf("%s.%s@%d", sp.Type, sp.Field, sp.Dev)
				if sp.OneTo > 0 {
					k += "/one-recipient"
				}
				if sp.Kind == "mirror" {
					k = fmt.Sprintf("%s/mirror@%d", sp.Type, sp.Dev)
				}
				if sp.Kind == "drop-field" || sp.Kind == "empty" {
					k += "/structural"
				}
				if !seen[k] {
					seen[k] = true
					pick = append(pick, sp)
				}
			}
			specs = pick
		} else {
			lim := 400
			if strings.HasPrefix(p.name, "ecdsa") {
				lim = 300
			}
			if len(specs) > lim {
				specs = specs[:lim]
			}
		}
		r.Note("%s: %d injection specs", p.name, len(specs))
		all = append(all, specs...)
	}
	results, crashed := runSpecsInChildren(r, all)
	for _, c := range crashed {
		parts := strings.SplitN(c, " :: ", 2)
		key := "protocol-crash/" + strings.Join(strings.Fields(parts[0])[:3], "/")
		r.Evals++
		r.Assert(false, key, "process-keeps-running-under-injection", func() string { return c })
	}
	for got := range results {
		for _, ir := range got {
			r.Evals++
			s := ir.Spec
			site := fmt.Sprintf("%s/%s.%s/%s", s.Proto, s.Type, s.Field, s.Kind)
			r.Dist["injection/"+s.Proto+"/"+s.Kind]++
			if !ir.Applied {
				r.Dist["injection-not-applicable"]++
				continue
			}
			r.Distinct++
			r.Traces++
			if len(r.Samples) < 10 {
				r.Samples = append(r.Samples, fmt.Sprintf("%s -> errors=%v outputs=%d", s.String(), ir.Errors, ir.Outputs))
			}
			r.Assert(len(ir.Panics) == 0, "panic/"+site, "no-panic-under-injection", func() string { return s.String() + " " + strings.Join(ir.Panics, "; ") })
			if strings.Contains(ir.BadOut, "erased its share although") {
				// the resharing clause: keyed by where the deviation was made (message type and field), whatever the kind
				r.Assert(false, fmt.Sprintf("key-lost/%s/%s.%s", s.Proto, s.Type, s.Field), "erased-old-share-implies-every-honest-new-member-has-key-data", func() string { return s.String() + " " + ir.BadOut })
			} else {
				r.Assert(ir.BadOut == "", "bad-output/"+site, "no-honest-party-outputs-invalid-data", func() string { return s.String() + " " + ir.BadOut })
			}
			// values no commitment, share check or proof covers: an alteration shows only as a failed final
			// self-check, which cannot be attributed (the property allows "nobody" there)
			uncovered := map[string]bool{
				"eddsa-signing/SignRound3Message": true, // s_j
				"ecdsa-signing/SignRound9Message": true, // s_j
				"ecdsa-signing/SignRound3Message": true, // theta_j: only delta = sum(theta) enters R; a wrong R shows at the final self-check
			}[s.Proto+"/"+s.Type]
			// alterations the protocol cannot attribute to one sender (the property allows "nobody"):
			// a value that must be equal across several senders, or a duplicate between two other parties
			unattributable := map[string]bool{
				"ecdsa-resharing/DGRound1Message.ssid": true, "eddsa-resharing/DGRound1Message.ssid": true,
				"ecdsa-resharing/DGRound1Message.ecdsa_pub_x": true, "ecdsa-resharing/DGRound1Message.ecdsa_pub_y": true,
				"eddsa-resharing/DGRound1Message.eddsa_pub_x": true, "eddsa-resharing/DGRound1Message.eddsa_pub_y": true,
				"ecdsa-keygen/KGRound1Message.h1": true, "ecdsa-keygen/KGRound1Message.h2": true,
				"ecdsa-resharing/DGRound2Message1.h1": true, "ecdsa-resharing/DGRound2Message1.h2": true,
				"ecdsa-resharing/DGRound2Message1.": true, "ecdsa-keygen/KGRound1Message.": true,
			}
			detected := false
			for k, cs := range ir.Culprits {
				detected = true
				onlyDev := true
				for _, c := range cs {
					if c != s.Dev {
						onlyDev = false
					}
				}
				r.Assert(onlyDev, "blame-other/"+site, "errors-name-nobody-but-the-deviator", func() string { return s.String() + " " + ir.Errors[k] })
				r.Assert((len(cs) > 0 || uncovered || ir.SelfBlame > 0 || unattributable[s.Proto+"/"+s.Type+"."+s.Field]) && onlyDev, "blame-missing/"+site, "covered-alteration-names-exactly-the-deviator", func() string { return s.String() + " " + ir.Errors[k] })
			}
			if detected {
				r.Dist["detected/"+s.Proto]++
			} else if ir.Outputs > 0 {
				r.Dist["undetected-but-valid-output/"+s.Proto]++
			} else {
				r.Dist["stalled-without-error/"+s.Proto]++
			}
		}
	}
}

// erasedWithoutKey: the resharing clause of "no bad output": an honest old member's share may be erased only when every
// honest new member has emitted its key data (net.HeldXi are the old members' share objects, in node order)
func erasedWithoutKey(net *Net, honest []int) string {
	for _, i := range honest {
		if net.Nodes[i].Role != "old" || i >= len(net.HeldXi) || net.HeldXi[i].Sign() != 0 {
			continue
		}
		for _, j := range honest {
			if net.Nodes[j].Role == "new" && len(net.Nodes[j].Ends) == 0 {
				return fmt.Sprintf("honest old member %s erased its share although honest new member %s emitted no key data", net.Nodes[i].Name, net.Nodes[j].Name)
			}
		}
	}
	return ""
}
