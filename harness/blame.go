package main

import (
	"fmt"
	"math/big"
	"math/rand"
	"sort"
	"strings"

	"github.com/bnb-chain/tss-lib/v2/common"
	"github.com/bnb-chain/tss-lib/v2/crypto"
	eddsakeygen "github.com/bnb-chain/tss-lib/v2/eddsa/keygen"
	eddsasigning "github.com/bnb-chain/tss-lib/v2/eddsa/signing"
	"github.com/bnb-chain/tss-lib/v2/tss"
)

func natHex(b []byte) string { return eInt(new(big.Int).SetBytes(b)) }

func natsHex(bs [][]byte) string {
	if len(bs) == 0 {
		return "_"
	}
	out := make([]string, len(bs))
	for i, b := range bs {
		out[i] = natHex(b)
	}
	return strings.Join(out, ",")
}

func culpritSet(net *Net, e *tss.Error) string {
	var cs []string
	for _, c := range e.Culprits() {
		for k, o := range net.Nodes {
			if c != nil && string(o.ID.Key) == string(c.Key) {
				cs = append(cs, fmt.Sprint(k))
			}
		}
	}
	sort.Strings(cs)
	if len(cs) == 0 {
		return "_"
	}
	return strings.Join(cs, ",")
}

// blameCorrespondence re-judges EdDSA keygen round 3 and EdDSA signing round 3 with the Lean round models:
// from the messages an honest party received (after the deviator's tampering) the model predicts the culprit
// list and the saved share; the Go party must report exactly that.
func blameCorrespondence(r *Run, rng *rand.Rand, thorough bool) {
	q := tss.Edwards().Params().N
	ec := tss.Edwards()
	type tw struct {
		typ, field, kind string
		elem             int
	}
	tweaks := []tw{{"", "", "", 0}, {"KGRound2Message2", "de_commitment", "+1", 1}, {"KGRound2Message2", "de_commitment", "drop-field", 0},
		{"KGRound2Message2", "proof_t", "+1", 0}, {"KGRound2Message2", "proof_alpha_x", "+1", 0}, {"KGRound2Message1", "share", "+1", 0},
		{"KGRound1Message", "commitment", "random", 0}, {"KGRound2Message2", "de_commitment", "empty", 2}, {"KGRound2Message2", "", "mirror", 0},
		{"KGRound2Message1", "share", "negq", 0}, {"KGRound2Message2", "proof_t", "negq", 0}}
	if !thorough {
		tweaks = append(tweaks[:4], tweaks[5], tweaks[8], tweaks[9])
	}
	for ti, t := range tweaks {
		n, th := 3, 1
		keys := partyKeys(rng, n, ti, q)
		seed := rng.Int63()
		net := eddsaKeygenNet(rand.New(rand.NewSource(seed)), n, th, keys)
		dev := ti % n
		ref := eddsaKeygenNet(rand.New(rand.NewSource(seed)), n, th, keys)
		ref.Run(rand.New(rand.NewSource(1)), Strategy{Name: "fifo", Pick: pickFIFO}, 100000)
		if t.typ != "" {
			var donor tss.Message
			for _, m := range ref.Nodes[(dev+1)%n].Emitted {
				if shortType(m.Type()) == t.typ {
					donor = m
				}
			}
			trng := rand.New(rand.NewSource(seed + 1))
			net.Tamper = func(from int, m tss.Message) []tss.Message {
				if from != dev || shortType(m.Type()) != t.typ {
					return []tss.Message{m}
				}
				tm, _ := tamperMsg(trng, m, donor, injSpec{Type: t.typ, Field: t.field, Elem: t.elem, Kind: t.kind})
				return []tss.Message{tm}
			}
		}
		net.Run(rand.New(rand.NewSource(2)), Strategy{Name: "fifo", Pick: pickFIFO}, 100000)
		if len(net.Panics) > 0 {
			r.Assert(false, "blame/eddsa-keygen/panic", "no-panic-under-injection", func() string { return fmt.Sprint(t, net.Panics) })
			continue
		}
		// ssid as the parties compute it
		ssidList := []*big.Int{ec.Params().P, ec.Params().N, ec.Params().Gx, ec.Params().Gy}
		for _, nd := range net.Nodes {
			ssidList = append(ssidList, new(big.Int).SetBytes(nd.ID.Key))
		}
		ssidList = append(ssidList, big.NewInt(1), big.NewInt(0))
		ssid := common.SHA512_256i(ssidList...).Bytes()
		for i, nd := range net.Nodes {
			if i == dev {
				continue
			}
			// what party i received from each peer
			type pin struct {
				c, share, ax, ay, t []byte
				d                   [][]byte
			}
			in := map[int]*pin{}
			for _, d := range net.Delivered {
				if d.To != i {
					continue
				}
				p := in[d.From]
				if p == nil {
					p = &pin{}
					in[d.From] = p
				}
				switch c := d.Msg.(tss.ParsedMessage).Content().(type) {
				case *eddsakeygen.KGRound1Message:
					p.c = c.GetCommitment()
				case *eddsakeygen.KGRound2Message1:
					p.share = c.GetShare()
				case *eddsakeygen.KGRound2Message2:
					p.d, p.ax, p.ay, p.t = c.GetDeCommitment(), c.GetProofAlphaX(), c.GetProofAlphaY(), c.GetProofT()
				}
			}
			var peers []string
			complete := true
			for j := range net.Nodes {
				if j == i {
					continue
				}
				p := in[j]
				if p == nil || p.c == nil || p.share == nil || p.t == nil {
					complete = false
					break
				}
				peers = append(peers, fmt.Sprintf("%d/%s/%s/%s/%s/%s/%s", j, natHex(p.c), natsHex(p.d), natHex(p.ax), natHex(p.ay), natHex(p.t), natHex(p.share)))
			}
			if !complete {
				continue // the party never reached round 3 (e.g. a message failed ValidateBasic)
			}
			// own share to self: recover from the result when the run succeeded, else from the reference run
			// (the party's own polynomial is determined by its seeded reader, identical in both runs)
			var goRes string
			ownShare := (*big.Int)(nil)
			refKey := ref.Nodes[i].Ends[0].(*eddsakeygen.LocalPartySaveData)
			// x_i(ref) = ownShare + Σ honest shares(ref); recompute ownShare from the reference deliveries
			sum := new(big.Int)
			for _, d := range ref.Delivered {
				if d.To == i {
					if c, ok := d.Msg.(tss.ParsedMessage).Content().(*eddsakeygen.KGRound2Message1); ok {
						sum.Add(sum, new(big.Int).SetBytes(c.GetShare()))
					}
				}
			}
			ownShare = new(big.Int).Mod(new(big.Int).Sub(refKey.Xi, sum), q)
			if nd.Err != nil {
				if nd.Err.Round() != 3 || refusedBeforeStore(nd.Err) {
					continue // rejected at delivery (ValidateBasic): not a round-3 verdict
				}
				goRes = "ok culprits=" + culpritSet(net, nd.Err)
			} else if len(nd.Ends) == 1 {
				k := nd.Ends[0].(*eddsakeygen.LocalPartySaveData)
				goRes = "ok culprits=_ xi=" + eInt(k.Xi)
			} else {
				continue
			}
			lean := r.model.Call("kg_round3", fmt.Sprint(th), eInt(new(big.Int).SetBytes(nd.ID.Key)), eInt(ownShare), eBytes(ssid), strings.Join(peers, ";"))
			line := "kg_round3 " + fmt.Sprint(th) + " … " + strings.Join(peers, ";")
			r.count("kg_round3", goRes, true, line)
			r.Traces++
			cmp := lean
			if nd.Err != nil {
				// on error the Go party saves nothing: compare the culprit list only
				if k := strings.Index(cmp, " xi="); k >= 0 {
					cmp = cmp[:k]
				}
			}
			if cmp != goRes {
				r.fail(Failure{Kind: "diff", Key: "blame/eddsa-keygen-round3/" + t.typ + "." + t.field + "/" + t.kind, Op: line, Go: goRes, Lean: lean})
			}
		}
	}
	// EdDSA signing round 3
	edKs, err := genEdKeys(rng, 3, 1, 0, Strategy{Name: "fifo", Pick: pickFIFO})
	if err != nil {
		return
	}
	stw := []tw{{"", "", "", 0}, {"SignRound2Message", "de_commitment", "+1", 1}, {"SignRound2Message", "proof_t", "+1", 0},
		{"SignRound1Message", "commitment", "+1", 0}, {"SignRound2Message", "de_commitment", "drop-field", 0}, {"SignRound2Message", "proof_alpha_y", "+1", 0}}
	for ti, t := range stw {
		msg := big.NewInt(int64(1000 + ti))
		seed := rng.Int63()
		net := eddsaSigningNet(rand.New(rand.NewSource(seed)), edKs.keys, edKs.pids, 1, msg, -1)
		dev := ti % 3
		if t.typ != "" {
			trng := rand.New(rand.NewSource(seed + 1))
			net.Tamper = func(from int, m tss.Message) []tss.Message {
				if from != dev || shortType(m.Type()) != t.typ {
					return []tss.Message{m}
				}
				tm, _ := tamperMsg(trng, m, nil, injSpec{Type: t.typ, Field: t.field, Elem: t.elem, Kind: t.kind})
				return []tss.Message{tm}
			}
		}
		net.Run(rand.New(rand.NewSource(2)), Strategy{Name: "fifo", Pick: pickFIFO}, 100000)
		if len(net.Panics) > 0 {
			r.Assert(false, "blame/eddsa-signing/panic", "no-panic-under-injection", func() string { return fmt.Sprint(t, net.Panics) })
			continue
		}
		ssidList := []*big.Int{ec.Params().P, ec.Params().N, ec.Params().Gx, ec.Params().Gy}
		for _, nd := range net.Nodes {
			ssidList = append(ssidList, new(big.Int).SetBytes(nd.ID.Key))
		}
		flat, _ := crypto.FlattenECPoints(edKs.keys[0].BigXj)
		ssidList = append(ssidList, flat...)
		ssidList = append(ssidList, big.NewInt(1), big.NewInt(0))
		ssid := common.SHA512_256i(ssidList...).Bytes()
		for i, nd := range net.Nodes {
			if i == dev {
				continue
			}
			type pin struct {
				c, ax, ay, t []byte
				d            [][]byte
			}
			in := map[int]*pin{}
			for _, d := range net.Delivered {
				if d.To != i {
					continue
				}
				p := in[d.From]
				if p == nil {
					p = &pin{}
					in[d.From] = p
				}
				switch c := d.Msg.(tss.ParsedMessage).Content().(type) {
				case *eddsasigning.SignRound1Message:
					p.c = c.GetCommitment()
				case *eddsasigning.SignRound2Message:
					p.d, p.ax, p.ay, p.t = c.GetDeCommitment(), c.GetProofAlphaX(), c.GetProofAlphaY(), c.GetProofT()
				}
			}
			var peers []string
			complete := true
			for j := range net.Nodes {
				if j == i {
					continue
				}
				p := in[j]
				if p == nil || p.c == nil || p.t == nil {
					complete = false
					break
				}
				peers = append(peers, fmt.Sprintf("%d/%s/%s/%s/%s/%s", j, natHex(p.c), natsHex(p.d), natHex(p.ax), natHex(p.ay), natHex(p.t)))
			}
			if !complete {
				continue
			}
			goRes := "ok pass"
			if nd.Err != nil {
				if nd.Err.Round() != 3 {
					continue
				}
				goRes = "ok error culprits=" + culpritSet(net, nd.Err)
			}
			lean := r.model.Call("sg_round3", eBytes(ssid), strings.Join(peers, ";"))
			line := "sg_round3 … " + strings.Join(peers, ";")
			r.count("sg_round3", goRes, true, line)
			r.Traces++
			if lean != goRes {
				r.fail(Failure{Kind: "diff", Key: "blame/eddsa-signing-round3/" + t.typ + "." + t.field + "/" + t.kind, Op: line, Go: goRes, Lean: lean})
			}
		}
	}
}
