package main

import (
	"fmt"
	"math/big"
	"math/rand"
	"strings"

	"github.com/bnb-chain/tss-lib/v2/crypto"
	ecdsakeygen "github.com/bnb-chain/tss-lib/v2/ecdsa/keygen"
	eddsakeygen "github.com/bnb-chain/tss-lib/v2/eddsa/keygen"
	"github.com/bnb-chain/tss-lib/v2/tss"
)

func init() { props["C04"] = runC04 }

// resharing ordering invariants, evaluated after every single start/delivery (every prefix is a cut point)
type reshareWatch struct {
	r        *Run
	what     string
	nOld     int
	origXi   []*big.Int // value of each old member's share before the run
	heldXi   []*big.Int // the caller-held big.Int (same pointer the party was given)
	ackType  string
	violated bool
}

func emittedType(nd *Node, suffix string) bool {
	for _, m := range nd.Emitted {
		if strings.HasSuffix(m.Type(), suffix) {
			return true
		}
	}
	return false
}

func (w *reshareWatch) onEvent(n *Net, ev *Event, d *Delivery) {
	allAcked := true
	for _, nd := range n.Nodes[w.nOld:] {
		if !emittedType(nd, w.ackType) {
			allAcked = false
		}
	}
	for i := 0; i < w.nOld; i++ {
		erased := w.heldXi[i].Sign() == 0
		if !allAcked {
			w.r.Assert(!erased && w.heldXi[i].Cmp(w.origXi[i]) == 0, w.what+"/erase-before-acks", "no-old-share-erased-before-every-new-member-acknowledged", func() string {
				return fmt.Sprintf("after event %d (%s %s<-%s %s): old%d erased=%v", len(n.Events), ev.Kind, ev.Node, ev.From, ev.Type, i, erased)
			})
		}
	}
	for _, nd := range n.Nodes[w.nOld:] {
		if len(nd.Ends) > 0 && !allAcked {
			w.r.Assert(false, w.what+"/save-before-acks", "no-new-member-emits-key-material-before-every-new-member-acknowledged", func() string {
				return fmt.Sprintf("after event %d: %s ended", len(n.Events), nd.Name)
			})
		}
	}
}

func newCommitteeKeys(rng *rand.Rand, n int, old tss.SortedPartyIDs, q *big.Int) []*big.Int {
	keys := make([]*big.Int, 0, n)
	for len(keys) < n {
		k := new(big.Int).Add(randInt(rng, 250), big.NewInt(1000))
		clash := false
		for _, o := range old {
			if new(big.Int).SetBytes(o.Key).Cmp(k) == 0 {
				clash = true
			}
		}
		for _, o := range keys {
			if new(big.Int).Mod(o, q).Cmp(new(big.Int).Mod(k, q)) == 0 {
				clash = true
			}
		}
		if !clash {
			keys = append(keys, k)
		}
	}
	return keys
}

// one EdDSA resharing; returns the new key set (nil on failure)
func reshareEd(r *Run, rng *rand.Rand, ks *edKeySet, oldSub []int, newN, newT int, st Strategy) *edKeySet {
	q := tss.Edwards().Params().N
	un := make(tss.UnSortedPartyIDs, len(oldSub))
	for a, j := range oldSub {
		un[a] = tss.NewPartyID(ks.pids[j].Id, ks.pids[j].Moniker, new(big.Int).SetBytes(ks.pids[j].Key))
	}
	oldPIDs := tss.SortPartyIDs(un)
	oldKeys := make([]eddsakeygen.LocalPartySaveData, len(oldPIDs))
	for a, id := range oldPIDs {
		for j, p := range ks.pids {
			if string(p.Key) == string(id.Key) {
				// each party gets its own copy of the key structure (as after a reload), sharing nothing
				c := ks.keys[j]
				c.Xi = new(big.Int).Set(ks.keys[j].Xi)
				oldKeys[a] = c
			}
		}
	}
	newPIDs := makePIDs(newCommitteeKeys(rng, newN, ks.pids, q), "N")
	net := eddsaResharingNet(rng, oldKeys, oldPIDs, ks.t, newPIDs, newT)
	w := &reshareWatch{r: r, what: "eddsa-resharing", nOld: len(oldPIDs), ackType: "DGRound4Message"}
	for i := range oldKeys {
		w.heldXi = append(w.heldXi, oldKeys[i].Xi)
		w.origXi = append(w.origXi, new(big.Int).Set(oldKeys[i].Xi))
	}
	waits := map[int][]string{}
	net.OnEvent = recordWaiting(len(oldPIDs), waits, w.onEvent)
	net.Run(rng, st, 300000)
	r.Evals++
	r.Traces++
	r.Dist["eddsa-resharing/"+st.Name]++
	if !st.Duplicate || true {
		engine2Check(r, "eddsa-resharing", net, len(oldPIDs), waits)
	}
	ok := len(net.Panics) == 0
	for _, nd := range net.Nodes {
		if len(nd.Ends) != 1 || nd.Err != nil {
			ok = false
		}
	}
	key := "eddsa-resharing/completes"
	if st.PreStart {
		key = "eddsa-resharing/completes/pre-start-delivery"
	}
	r.Assert(ok, key, "resharing-completes", func() string {
		var s []string
		for _, nd := range net.Nodes {
			s = append(s, fmt.Sprintf("%s:%s ends=%d err=%v", nd.Name, roundOf(nd.Party), len(nd.Ends), nd.Err != nil))
		}
		return fmt.Sprintf("old=%v new=(%d,%d) %s panics=%v: %s", oldSub, newN, newT, st.Name, net.Panics, strings.Join(s, " "))
	})
	if !ok {
		return nil
	}
	r.Distinct++
	for i := 0; i < len(oldPIDs); i++ {
		r.Assert(w.heldXi[i].Sign() == 0, "eddsa-resharing/old-erased", "old-member-share-erased-at-the-end", nil)
	}
	nk := &edKeySet{n: newN, t: newT, pids: newPIDs, net: net}
	xi := make([]*big.Int, newN)
	sid := make([]*big.Int, newN)
	views := make([]pubView, newN)
	kss := make([][]*big.Int, newN)
	bx := make([][]*crypto.ECPoint, newN)
	pubs := make([]*crypto.ECPoint, newN)
	for i, nd := range net.Nodes[len(oldPIDs):] {
		k := *nd.Ends[0].(*eddsakeygen.LocalPartySaveData)
		nk.keys = append(nk.keys, k)
		xi[i], sid[i], kss[i], bx[i], pubs[i] = k.Xi, k.ShareID, k.Ks, k.BigXj, k.EDDSAPub
		views[i] = pubView{pub: ePoint(k.EDDSAPub), ks: []string{eInts(k.Ks)}, bigXj: []string{ePoints(k.BigXj)}}
	}
	r.Assert(pubs[0].Equals(ks.keys[0].EDDSAPub), "eddsa-resharing/same-key", "new-committee-holds-the-same-group-key", nil)
	checkSharing(r, "eddsa-resharing", tss.Edwards(), newT, xi, sid, views, kss, bx, pubs)
	return nk
}

func reshareEc(r *Run, rng *rand.Rand, ks *ecKeySet, oldSub []int, newN, newT int, proofs bool, st Strategy) *ecKeySet {
	q := tss.S256().Params().N
	un := make(tss.UnSortedPartyIDs, len(oldSub))
	for a, j := range oldSub {
		un[a] = tss.NewPartyID(ks.pids[j].Id, ks.pids[j].Moniker, new(big.Int).SetBytes(ks.pids[j].Key))
	}
	oldPIDs := tss.SortPartyIDs(un)
	oldKeys := make([]ecdsakeygen.LocalPartySaveData, len(oldPIDs))
	for a, id := range oldPIDs {
		for j, p := range ks.pids {
			if string(p.Key) == string(id.Key) {
				c := ks.keys[j]
				c.Xi = new(big.Int).Set(ks.keys[j].Xi)
				oldKeys[a] = c
			}
		}
	}
	newPIDs := makePIDs(newCommitteeKeys(rng, newN, ks.pids, q), "N")
	net := ecdsaResharingNet(rng, oldKeys, oldPIDs, ks.t, newPIDs, newT, proofs, rng.Intn(5))
	w := &reshareWatch{r: r, what: "ecdsa-resharing", nOld: len(oldPIDs), ackType: "DGRound4Message2"}
	for i := range oldKeys {
		w.heldXi = append(w.heldXi, oldKeys[i].Xi)
		w.origXi = append(w.origXi, new(big.Int).Set(oldKeys[i].Xi))
	}
	waits := map[int][]string{}
	net.OnEvent = recordWaiting(len(oldPIDs), waits, w.onEvent)
	net.Run(rng, st, 300000)
	r.Evals++
	r.Traces++
	r.Dist[fmt.Sprintf("ecdsa-resharing/%s/proofs=%v", st.Name, proofs)]++
	engine2Check(r, "ecdsa-resharing", net, len(oldPIDs), waits)
	ok := len(net.Panics) == 0
	for _, nd := range net.Nodes {
		if len(nd.Ends) != 1 || nd.Err != nil {
			ok = false
		}
	}
	key := "ecdsa-resharing/completes"
	if st.PreStart {
		key = "ecdsa-resharing/completes/pre-start-delivery"
	}
	r.Assert(ok, key, "resharing-completes", func() string {
		var s []string
		for _, nd := range net.Nodes {
			e := ""
			if nd.Err != nil {
				e = errDesc(nd.Err)
			}
			s = append(s, fmt.Sprintf("%s:%s ends=%d %s", nd.Name, roundOf(nd.Party), len(nd.Ends), e))
		}
		return fmt.Sprintf("old=%v new=(%d,%d) %s panics=%v: %s", oldSub, newN, newT, st.Name, net.Panics, strings.Join(s, " "))
	})
	if !ok {
		return nil
	}
	r.Distinct++
	nk := &ecKeySet{n: newN, t: newT, pids: newPIDs, net: net}
	xi := make([]*big.Int, newN)
	sid := make([]*big.Int, newN)
	views := make([]pubView, newN)
	kss := make([][]*big.Int, newN)
	bx := make([][]*crypto.ECPoint, newN)
	pubs := make([]*crypto.ECPoint, newN)
	for i, nd := range net.Nodes[len(oldPIDs):] {
		k := *nd.Ends[0].(*ecdsakeygen.LocalPartySaveData)
		nk.keys = append(nk.keys, k)
		xi[i], sid[i], kss[i], bx[i], pubs[i] = k.Xi, k.ShareID, k.Ks, k.BigXj, k.ECDSAPub
		views[i] = pubView{pub: ePoint(k.ECDSAPub), ks: []string{eInts(k.Ks)}, bigXj: []string{ePoints(k.BigXj)}}
	}
	r.Assert(pubs[0].Equals(ks.keys[0].ECDSAPub), "ecdsa-resharing/same-key", "new-committee-holds-the-same-group-key", nil)
	checkSharing(r, "ecdsa-resharing", tss.S256(), newT, xi, sid, views, kss, bx, pubs)
	return nk
}

func runC04(r *Run, rng *rand.Rand, thorough bool) {
	r.Rule = "whole resharing runs (EdDSA: old (n,t) ∈ {(2,1),(3,1),(3,2),(4,2)}, old subsets of size t+1 and t+2, new (n',t') with t' <,=,> t; ECDSA on the vendored key with proofs on/off) under every delivery strategy incl. pre-Start delivery and, per message type, one held-back delivery of that type (one slow packet); the ordering invariants are evaluated after EVERY start/delivery (every prefix is a cut point); chains of resharings followed by signing; an old member in each position resharing a consistently shifted key (x+1, Y+λG); tampered EdDSA resharing runs in which every new member's side is re-judged by the Lean model (key agreement, share checks, V_0 = y, culprits); non-trivial = one completed run; direct assertions: same group key, C03 clauses for the new committee, t'+1 new members sign, no old share erased and no new key emitted before every new member acknowledged"
	oldCfg := [][2]int{{2, 1}, {3, 1}}
	if thorough {
		oldCfg = [][2]int{{2, 1}, {3, 1}, {3, 2}, {4, 2}, {5, 2}}
	}
	run := 0
	for _, oc := range oldCfg {
		ks, err := genEdKeys(rng, oc[0], oc[1], run, Strategy{Name: "fifo", Pick: pickFIFO})
		if err != nil {
			r.Assert(false, "eddsa-keygen/completes", "keygen-completes", func() string { return err.Error() })
			continue
		}
		subs := combos(oc[0], oc[1]+1)
		if oc[0] >= oc[1]+2 {
			subs = append(subs, combos(oc[0], oc[1]+2)...)
		}
		for _, newCfg := range [][2]int{{2, 1}, {3, 2}, {4, 1}, {3, 1}} {
			sub := subs[run%len(subs)]
			sts := strategies(len(sub)+newCfg[0], rng)
			st := sts[run%len(sts)]
			run++
			nk := reshareEd(r, rng, ks, sub, newCfg[0], newCfg[1], st)
			if nk == nil {
				continue
			}
			// any t'+1 of the new members can sign under the same key
			ss := combos(nk.n, nk.t+1)
			s := ss[rng.Intn(len(ss))]
			m := new(big.Int).SetBytes(randBytes(rng, 32))
			net, out := runEddsaSigning(rng, nk, s, m, -1, Strategy{Name: "random", Pick: pickRandom})
			checkEddsaSignature(r, "eddsa-resharing/sign-after", net, out, ks.keys[0].EDDSAPub, m, -1)
			// chain: reshare the reshared key again, then sign
			if thorough || run%4 == 1 {
				nk2 := reshareEd(r, rng, nk, ss[0], 2, 1, Strategy{Name: "lifo", Pick: pickLIFO})
				if nk2 != nil {
					net, out := runEddsaSigning(rng, nk2, []int{0, 1}, m, -1, Strategy{Name: "fifo", Pick: pickFIFO})
					checkEddsaSignature(r, "eddsa-resharing/chain-sign", net, out, ks.keys[0].EDDSAPub, m, -1)
				}
			}
			if len(r.Samples) < 8 {
				r.Samples = append(r.Samples, fmt.Sprintf("eddsa resharing old(n,t)=(%d,%d) subset=%v new=(%d,%d) schedule=%s events=%d", oc[0], oc[1], sub, newCfg[0], newCfg[1], st.Name, len(nk.net.Events)))
			}
		}
	}
	// directed: every message of the first round reaches the new members before their Start call
	if ks, err := genEdKeys(rng, 2, 1, 0, Strategy{Name: "fifo", Pick: pickFIFO}); err == nil {
		reshareEd(r, rng, ks, []int{0, 1}, 2, 1, Strategy{Name: "prestart-all-new", Pick: pickFIFO, PreStart: true, LateStart: []int{2, 3}})
		reshareEd(r, rng, ks, []int{0, 1}, 3, 1, Strategy{Name: "prestart-one-new", Pick: pickRandom, PreStart: true, LateStart: []int{3}})
	}
	// ECDSA: vendored key, production path (proofs on) and without
	eks := fixtureEcKeys()
	ecRuns := 2 // t' < t with proofs, t' > t without
	if thorough {
		ecRuns = 8
	}
	for i := 0; i < ecRuns; i++ {
		subs := combos(eks.n, eks.t+1+i%2)
		sub := subs[rng.Intn(len(subs))]
		newCfg := [][2]int{{3, 1}, {4, 3}, {2, 1}, {4, 2}, {3, 2}, {5, 3}, {5, 4}, {4, 1}}[i%8]
		sts := strategies(len(sub)+newCfg[0], rng)
		st := sts[(i*3+int(r.Seed))%len(sts)]
		nk := reshareEc(r, rng, eks, sub, newCfg[0], newCfg[1], i%2 == 0, st)
		if nk == nil {
			continue
		}
		ss := combos(nk.n, nk.t+1)
		m := new(big.Int).Mod(randInt(rng, 256), tss.S256().Params().N)
		net, out := runEcdsaSigning(rng, nk, ss[rng.Intn(len(ss))], m, -1, nil, Strategy{Name: "random", Pick: pickRandom}, nil)
		checkEcdsaSignature(r, "ecdsa-resharing/sign-after", net, out, eks.keys[0].ECDSAPub, m, -1, nil)
		if len(r.Samples) < 10 {
			r.Samples = append(r.Samples, fmt.Sprintf("ecdsa resharing subset=%v new=(%d,%d) proofs=%v schedule=%s", sub, newCfg[0], newCfg[1], i%2 == 0, st.Name))
		}
	}
	reshareHoldRuns(r, rng)
	blameCorrespondenceRs(r, rng, thorough)
	blameCorrespondenceRsEcShares(r, rng, thorough)
	// one old member, in each position, reshares a consistent-but-different key
	for dev := 0; dev < 3; dev++ {
		reshareShiftedKey(r, rng, "ed", dev)
		if thorough || dev == 1+int(r.Seed)%2 {
			reshareShiftedKey(r, rng, "ec", dev)
		}
	}
}

// reshareHoldRuns: resharing on both curves with one slow packet per message type (everything else in emission
// order); every run is judged by reshareEc / reshareEd (completion, ordering invariants at every event, engine trace)
func reshareHoldRuns(r *Run, rng *rand.Rand) {
	eks := fixtureEcKeys()
	subs := combos(eks.n, eks.t+1)
	sub := subs[rng.Intn(len(subs))]
	if ref := reshareEc(r, rng, eks, sub, 3, 1, false, Strategy{Name: "fifo", Pick: pickFIFO}); ref != nil {
		for _, st := range holdStrategies(deliveredTypes(ref.net), rng) {
			reshareEc(r, rng, eks, sub, 3, 1, false, st)
		}
	}
	if ks, err := genEdKeys(rng, 3, 1, 0, Strategy{Name: "fifo", Pick: pickFIFO}); err == nil {
		if ref := reshareEd(r, rng, ks, []int{0, 2}, 3, 1, Strategy{Name: "fifo", Pick: pickFIFO}); ref != nil {
			for _, st := range holdStrategies(deliveredTypes(ref.net), rng) {
				reshareEd(r, rng, ks, []int{0, 2}, 3, 1, st)
			}
		}
	}
}
