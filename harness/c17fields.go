package main

import (
	"fmt"
	"math/big"
	"math/rand"
	"strings"

	"github.com/bnb-chain/tss-lib/v2/crypto/commitments"
	"github.com/bnb-chain/tss-lib/v2/tss"
	"google.golang.org/protobuf/proto"
	"google.golang.org/protobuf/reflect/protoreflect"
)

// pointsInMessageFields: the points a party receives inside commitment openings (every commitment / de-commitment
// pair of all six protocols). One party commits to the coordinates it would have sent, except that one pair is moved
// off the curve (y+1, x and y swapped, x+P), and opens that commitment correctly, so that nothing but the point
// itself is wrong. Every honest recipient must refuse it: it reports an error, and the error names the sender.
func pointsInMessageFields(r *Run, rng *rand.Rand, thorough bool) {
	for _, p := range c05Protos(rng) {
		ref := refRunOf(p)
		pairs := commitPairs(ref)
		P := tss.S256().Params().P
		if strings.HasPrefix(p.name, "eddsa") {
			P = tss.Edwards().Params().P
		}
		heavy := p.name == "ecdsa-keygen" || p.name == "ecdsa-resharing"
		for pi, pr := range pairs {
			devs := []int{0, len(ref.Nodes) - 1}
			if strings.Contains(p.name, "resharing") {
				devs = []int{0, 1} // the resharing commitments are the old committee's
			}
			if heavy && !thorough {
				devs = devs[int(r.Seed)%2 : int(r.Seed)%2+1]
			}
			for di, dev := range devs {
				// the opening the deviator sends in the reference run
				var honest [][]byte
				for _, m := range ref.Nodes[dev].Emitted {
					if shortType(m.Type()) == pr.dType {
						refl := m.(tss.ParsedMessage).Content().ProtoReflect()
						l := refl.Get(refl.Descriptor().Fields().ByName(protoreflect.Name(pr.dField))).List()
						honest = nil
						for k := 0; k < l.Len(); k++ {
							honest = append(honest, l.Get(k).Bytes())
						}
					}
				}
				if len(honest) < 3 || len(honest)%2 != 1 {
					continue
				}
				npairs := (len(honest) - 1) / 2
				kinds := []string{"y+1", "swap", "x+P"}
				if !thorough {
					kinds = kinds[(int(r.Seed)+pi+di)%3 : (int(r.Seed)+pi+di)%3+1]
				}
				for ki, kind := range kinds {
					which := []int{0, npairs - 1}[(ki+di+pi)%2]
					vals := make([]*big.Int, 0, len(honest)-1)
					for _, b := range honest[1:] {
						vals = append(vals, new(big.Int).SetBytes(b))
					}
					x, y := vals[2*which], vals[2*which+1]
					switch kind {
					case "y+1":
						vals[2*which+1] = new(big.Int).Add(y, bi(1))
					case "swap":
						vals[2*which], vals[2*which+1] = y, x
					case "x+P":
						vals[2*which] = new(big.Int).Add(x, P)
					}
					cmt := commitments.NewHashCommitment(rand.New(rand.NewSource(rng.Int63())), vals...)
					net := p.build(rand.New(rand.NewSource(11)))
					net.StopOnError = true
					applied := false
					setBytes := func(m tss.Message, field string, single []byte, list [][]byte) tss.Message {
						content := proto.Clone(m.(tss.ParsedMessage).Content()).(tss.MessageContent)
						refl := content.ProtoReflect()
						fd := refl.Descriptor().Fields().ByName(protoreflect.Name(field))
						if fd.IsList() {
							l := refl.Mutable(fd).List()
							l.Truncate(0)
							for _, b := range list {
								l.Append(protoreflect.ValueOfBytes(b))
							}
						} else {
							refl.Set(fd, protoreflect.ValueOfBytes(single))
						}
						return rewrap(m, content)
					}
					net.Tamper = func(from int, m tss.Message) []tss.Message {
						if from != dev {
							return []tss.Message{m}
						}
						switch shortType(m.Type()) {
						case pr.cType:
							return []tss.Message{setBytes(m, pr.cField, cmt.C.Bytes(), nil)}
						case pr.dType:
							applied = true
							var d [][]byte
							for _, v := range cmt.D {
								d = append(d, v.Bytes())
							}
							return []tss.Message{setBytes(m, pr.dField, nil, d)}
						}
						return []tss.Message{m}
					}
					net.Run(rand.New(rand.NewSource(1)), Strategy{Name: "fifo", Pick: pickFIFO}, 300000)
					if !applied {
						continue
					}
					r.Evals++
					r.Distinct++
					site := fmt.Sprintf("%s/%s.%s", p.name, pr.dType, pr.dField)
					r.Dist["message-field-point/"+site+"/"+kind]++
					desc := func(extra string) func() string {
						return func() string {
							return fmt.Sprintf("%s: party %d commits to its values with pair %d of %d moved off the curve (%s) and opens correctly: %s", site, dev, which, npairs, kind, extra)
						}
					}
					r.Assert(len(net.Panics) == 0, "message-field-point/"+site+"/no-panic", "off-curve-point-in-a-message-field-is-refused-with-an-error", desc(fmt.Sprint(net.Panics)))
					if p.name == "ecdsa-signing" {
						// the modelled signing rounds (Core/BlameSg, BlameSg9) re-judge what each honest signer concluded
						eks := fixtureEcKeys()
						for i, nd := range net.Nodes {
							if i != dev && !refusedBeforeStore(nd.Err) {
								sgJudge(r, net, i, nd, eks.keys[i], eks.pids[:3], desc("")())
							}
						}
					}
					for i, nd := range net.Nodes {
						if i == dev {
							continue
						}
						// did this party receive the opening at all?
						got := false
						for _, d := range net.Delivered {
							if d.To == i && d.From == dev && shortType(d.Msg.Type()) == pr.dType {
								got = true
							}
						}
						if !got {
							continue
						}
						names := ""
						if nd.Err != nil {
							names = culpritSet(net, nd.Err)
						}
						refused := nd.Err != nil && len(nd.Ends) == 0
						r.Assert(refused, "message-field-point/"+site+"/refused", "off-curve-point-in-a-message-field-is-refused-with-an-error", desc(fmt.Sprintf("%s finished (ends=%d, err=%v)", nd.Name, len(nd.Ends), nd.Err != nil)))
						if refused {
							r.Assert(names == fmt.Sprint(dev), "message-field-point/"+site+"/sender-named", "refusal-of-an-off-curve-point-names-its-sender",
								desc(fmt.Sprintf("%s reports %q naming [%s]", nd.Name, strings.SplitN(nd.Err.Error(), "\n", 2)[0], names)))
						}
					}
				}
			}
		}
	}
}
