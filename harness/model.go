package main

import (
	"bufio"
	"fmt"
	"io"
	"os"
	"os/exec"
	"strings"
	"sync"
)

// Model is the Lean driver (`tssdrv`) run as a child process: one op line in, one result line out.
type Model struct {
	mu   sync.Mutex
	cmd  *exec.Cmd
	in   io.WriteCloser
	out  *bufio.Reader
	path string
	Ops  int
}

func StartModel(path string) (*Model, error) {
	m := &Model{path: path}
	if err := m.start(); err != nil {
		return nil, err
	}
	return m, nil
}

func (m *Model) start() error {
	cmd := exec.Command(m.path)
	in, err := cmd.StdinPipe()
	if err != nil {
		return err
	}
	out, err := cmd.StdoutPipe()
	if err != nil {
		return err
	}
	cmd.Stderr = os.Stderr
	if err := cmd.Start(); err != nil {
		return err
	}
	m.cmd, m.in, m.out = cmd, in, bufio.NewReaderSize(out, 1<<20)
	return nil
}

// Call sends one op and returns the model's canonical result.
func (m *Model) Call(op string, args ...string) string {
	line := op
	if len(args) > 0 {
		line += " " + strings.Join(args, " ")
	}
	return m.CallLine(line)
}

func (m *Model) CallLine(line string) string {
	m.mu.Lock()
	defer m.mu.Unlock()
	m.Ops++
	if _, err := io.WriteString(m.in, line+"\n"); err != nil {
		return "model-io-error " + err.Error()
	}
	res, err := m.out.ReadString('\n')
	if err != nil {
		// the driver died (stack overflow, …): restart it so later ops still run
		_ = m.cmd.Wait()
		if e2 := m.start(); e2 != nil {
			fmt.Fprintln(os.Stderr, "cannot restart model:", e2)
		}
		return "model-crash"
	}
	return strings.TrimRight(res, "\n")
}

func (m *Model) Close() {
	if m == nil || m.cmd == nil {
		return
	}
	m.in.Close()
	_ = m.cmd.Wait()
}
