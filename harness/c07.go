package main

import (
	"fmt"
	ecdsakeygen "github.com/bnb-chain/tss-lib/v2/ecdsa/keygen"
	eddsakeygen "github.com/bnb-chain/tss-lib/v2/eddsa/keygen"
	"math/big"
	"math/rand"
	"sort"
	"strings"

	"github.com/bnb-chain/tss-lib/v2/tss"
)

func init() {
	props["C07"] = runC07
	props["C08"] = runC08
}

// engineCheck compares, for every node of a finished run, the party's observable behaviour after each
// of its events (round, WaitingFor, emitted types, end count) with the Lean engine model, and asserts that
// WaitingFor is exactly the set of peers with an undelivered required message.
func engineCheck(r *Run, proto string, net *Net, what string) {
	for i, nd := range net.Nodes {
		var evs, obs, waits []string
		for _, ev := range net.Events {
			if ev.Node != nd.Name {
				continue
			}
			if ev.Kind == "start" {
				evs = append(evs, "S")
			} else {
				fl := "p"
				if ev.Bcast {
					fl = "b"
				}
				from := -1
				for j, o := range net.Nodes {
					if o.Name == ev.From {
						from = j
					}
				}
				evs = append(evs, fmt.Sprintf("D:%s:%d:%s", ev.Type, from, fl))
			}
			rnd := strings.TrimPrefix(ev.Round, "round: ")
			if ev.Round == "No more rounds" {
				rnd = "done"
			}
			var em []string
			for _, e := range ev.Emit {
				em = append(em, strings.SplitN(e, ":", 2)[0])
			}
			w := make([]string, len(ev.Waiting))
			for k, x := range ev.Waiting {
				w[k] = fmt.Sprint(x)
			}
			obs = append(obs, fmt.Sprintf("%s/%s/%s/%d", rnd, strings.Join(w, ","), strings.Join(em, ","), ev.Ends))
			waits = append(waits, strings.Join(w, ","))
		}
		if len(evs) == 0 {
			continue
		}
		lean := r.model.Call("engine_trace", proto, fmt.Sprint(len(net.Nodes)), fmt.Sprint(i), strings.Join(evs, ";"))
		line := "engine_trace " + proto + " " + fmt.Sprint(len(net.Nodes)) + " " + fmt.Sprint(i) + " " + strings.Join(evs, ";")
		r.count("engine_trace", "value", true, line)
		r.Traces++
		ls := strings.Split(lean, ";")
		if len(ls) != len(obs) {
			r.fail(Failure{Kind: "diff", Key: what + "/engine", Op: line, Go: strings.Join(obs, ";"), Lean: lean})
			continue
		}
		for k := range obs {
			f := strings.Split(ls[k], "/")
			if len(f) != 5 {
				r.fail(Failure{Kind: "diff", Key: what + "/engine", Op: line, Go: obs[k], Lean: ls[k]})
				break
			}
			if strings.Join(f[:4], "/") != obs[k] {
				r.fail(Failure{Kind: "diff", Key: what + "/engine", Op: line, Go: fmt.Sprintf("event %d (%s): %s", k, evs[k], obs[k]), Lean: ls[k]})
				break
			}
			// exactness of WaitingFor (the property's own words, with the model's store as the record of deliveries)
			key := what + "/waiting-for"
			r.Assert(waits[k] == f[4], key, "WaitingFor-equals-peers-with-undelivered-required-message", func() string {
				return fmt.Sprintf("%s node %d after event %d (%s): WaitingFor=[%s] awaited=[%s]", proto, i, k, evs[k], waits[k], f[4])
			})
		}
	}
}

// emission signature of a node: the multiset of (type, routing) it sent
func emissionSig(nd *Node) string {
	var s []string
	for _, m := range nd.Emitted {
		s = append(s, emitDesc(m))
	}
	sort.Strings(s)
	return strings.Join(s, " ")
}

type protoRun struct {
	name  string
	build func(rng *rand.Rand) *Net
	check func(r *Run, net *Net) // result satisfies C01–C04
}

func allToAllRuns(r *Run, rng *rand.Rand, thorough bool) []protoRun {
	var out []protoRun
	edCfg := [][2]int{{2, 1}, {3, 1}}
	if thorough {
		edCfg = [][2]int{{2, 1}, {3, 1}, {3, 2}, {4, 2}, {5, 3}}
	}
	for _, c := range edCfg {
		n, t := c[0], c[1]
		keys := partyKeys(rng, n, n+t, tss.Edwards().Params().N)
		seed := rng.Int63()
		out = append(out, protoRun{name: "eddsa-keygen", build: func(_ *rand.Rand) *Net { return eddsaKeygenNet(rand.New(rand.NewSource(seed)), n, t, keys) }})
		ks, err := genEdKeys(rng, n, t, 0, Strategy{Name: "fifo", Pick: pickFIFO})
		if err == nil {
			subs := combos(n, t+1)
			sub := subs[rng.Intn(len(subs))]
			m := new(big.Int).SetBytes(randBytes(rng, 32))
			seed2 := rng.Int63()
			out = append(out, protoRun{name: "eddsa-signing", build: func(_ *rand.Rand) *Net {
				rr := rand.New(rand.NewSource(seed2))
				un := make(tss.UnSortedPartyIDs, len(sub))
				for a, j := range sub {
					un[a] = ks.pids[j]
				}
				pids := tss.SortPartyIDs(un)
				kk := ks.keys[:0:0]
				for _, id := range pids {
					for j, p := range ks.pids {
						if string(p.Key) == string(id.Key) {
							kk = append(kk, ks.keys[j])
						}
					}
				}
				return eddsaSigningNet(rr, kk, pids, t, m, -1)
			}})
		}
	}
	// ECDSA: signing on the vendored key; keygen with vendored pre-parameters
	eks := fixtureEcKeys()
	subs := combos(eks.n, eks.t+1)
	nEc := 1
	if thorough {
		nEc = 3
	}
	for i := 0; i < nEc; i++ {
		sub := subs[rng.Intn(len(subs))]
		m := new(big.Int).Mod(randInt(rng, 256), tss.S256().Params().N)
		seed := rng.Int63()
		out = append(out, protoRun{name: "ecdsa-signing", build: func(_ *rand.Rand) *Net {
			rr := rand.New(rand.NewSource(seed))
			un := make(tss.UnSortedPartyIDs, len(sub))
			for a, j := range sub {
				un[a] = eks.pids[j]
			}
			pids := tss.SortPartyIDs(un)
			kk := eks.keys[:0:0]
			for _, id := range pids {
				for j, p := range eks.pids {
					if string(p.Key) == string(id.Key) {
						kk = append(kk, eks.keys[j])
					}
				}
			}
			return ecdsaSigningNet(rr, kk, pids, eks.t, m, -1, nil)
		}})
	}
	{
		n, t := 2, 1
		if thorough {
			n, t = 3, 1
		}
		keys := partyKeys(rng, n, 1, tss.S256().Params().N)
		seed := rng.Int63()
		out = append(out, protoRun{name: "ecdsa-keygen", build: func(_ *rand.Rand) *Net { return ecdsaKeygenNet(rand.New(rand.NewSource(seed)), n, t, keys, 0) }})
	}
	return out
}

func runC07(r *Run, rng *rand.Rand, thorough bool) {
	r.Rule = "every protocol is run under each delivery strategy (FIFO, LIFO, random, future-first, duplicate-everything, per-party starvation, pre-Start delivery, one held-back delivery per message type; the resharing protocols with one held-back delivery per message type, their remaining schedules being C04's) and, for EdDSA with n=2, under EVERY interleaving of deliveries (exhaustive DFS); after each run: each party's behaviour after each of its events is compared with the Lean round-engine model, every party ends exactly once, nothing is left waiting, and every party's multiset of (type, routing) emissions equals the FIFO run's; non-trivial = one engine trace"
	runs := allToAllRuns(r, rng, thorough)
	for _, pr := range runs {
		var ref []string
		nNodes := len(pr.build(rng).Nodes)
		sts := strategies(nNodes, rng)
		// one slow packet per message type
		{
			probe := pr.build(rng)
			probe.Run(rand.New(rand.NewSource(1)), Strategy{Name: "fifo", Pick: pickFIFO}, 500000)
			sts = append(sts, holdStrategies(deliveredTypes(probe), rng)...)
		}
		for si, st := range sts {
			if !thorough && strings.HasPrefix(pr.name, "ecdsa") && !strings.HasPrefix(st.Name, "hold-") && si%3 != int(r.Seed)%3 {
				continue
			}
			net := pr.build(rng)
			quiescent := net.Run(rand.New(rand.NewSource(int64(si)+r.Seed)), st, 500000)
			r.Evals++
			r.Dist[pr.name+"/"+st.Name]++
			what := pr.name
			ends := 0
			for _, nd := range net.Nodes {
				ends += len(nd.Ends)
			}
			key := what + "/no-deadlock"
			if st.PreStart {
				key += "/pre-start-delivery"
			}
			r.Assert(quiescent && len(net.Pending) == 0 && ends == len(net.Nodes) && len(net.Panics) == 0, key, "all-delivered-implies-every-party-finished-exactly-once", func() string {
				var s []string
				for _, nd := range net.Nodes {
					s = append(s, fmt.Sprintf("%s:%s ends=%d", nd.Name, roundOf(nd.Party), len(nd.Ends)))
				}
				return st.Name + " " + strings.Join(s, " ") + fmt.Sprint(net.Panics)
			})
			var sig []string
			for _, nd := range net.Nodes {
				sig = append(sig, emissionSig(nd))
			}
			if ref == nil {
				ref = sig
			} else {
				for i := range sig {
					r.Assert(sig[i] == ref[i], what+"/emissions", "same-messages-same-routing-in-every-schedule", func() string {
						return fmt.Sprintf("%s node %d: %s vs %s", st.Name, i, sig[i], ref[i])
					})
				}
			}
			engineCheck(r, pr.name, net, what)
		}
	}
	// the two resharing protocols (their other schedules are C04's): one slow packet per message type
	reshareHoldRuns(r, rng)
	// exhaustive interleavings, EdDSA n = 2 (keygen and signing): DFS over the choice of the next delivery
	for _, pr := range runs {
		if !strings.HasPrefix(pr.name, "eddsa") {
			continue
		}
		if len(pr.build(rng).Nodes) != 2 {
			continue
		}
		count := exhaustive(r, pr, 20000)
		r.Dist[pr.name+"/exhaustive-interleavings"] += count
		r.Note("%s n=2: %d interleavings explored exhaustively", pr.name, count)
	}
}

// exhaustive explores every sequence of deliveries (all parties started first) by replaying choice paths
func exhaustive(r *Run, pr protoRun, cap int) int {
	count := 0
	var dfs func(path []int)
	dfs = func(path []int) {
		if count >= cap {
			return
		}
		net := pr.build(nil)
		for i := range net.Nodes {
			net.Start(i)
		}
		for _, c := range path {
			net.Deliver(c, false)
		}
		if len(net.Pending) == 0 {
			count++
			r.Evals++
			ends := 0
			for _, nd := range net.Nodes {
				ends += len(nd.Ends)
			}
			r.Assert(ends == len(net.Nodes) && len(net.Panics) == 0, pr.name+"/exhaustive", "every-interleaving-finishes-exactly-once", func() string { return fmt.Sprint(path) })
			if count%7 == 1 {
				engineCheck(r, pr.name, net, pr.name)
			}
			return
		}
		for k := range net.Pending {
			dfs(append(append([]int{}, path...), k))
		}
	}
	dfs(nil)
	return count
}

func runC08(r *Run, rng *rand.Rand, thorough bool) {
	r.Rule = "routing and channel discipline on every message of every run: each type is emitted with the routing the protocol table prescribes (secret-bearing types to exactly one recipient and not broadcast, all others broadcast to the right committee), survives WireBytes/ParseWireMessage unchanged, does not contain the sender's long-term secrets (every numeric field of every outgoing message is compared, as an integer and modulo the group order, with the sender's key share before and after, its Paillier factors and exponents, its ring-Pedersen exponents and primes, the constant term of the polynomial it dealt and the shares it dealt to parties that are not recipients of the message; and every response of the range / Bob / no-small-factor proofs in the messages must be as long as the mask that hides the witness in it); copies with the broadcast flag flipped are injected before / instead of / after the genuine message and must never advance a round; WaitingFor is compared with the exact awaited set of the Lean engine (Engine for the four all-to-all protocols, Engine2 for the two resharing protocols) after every delivery; resharing runs in which new members are started only after the old committee's first messages were delivered to them, with the awaited set asserted right after the late Start(); non-trivial = one engine trace"
	runs := allToAllRuns(r, rng, thorough)
	for pi, pr := range runs {
		nNodes := len(pr.build(rng).Nodes)
		sts := strategies(nNodes, rng)
		for mode := 0; mode < 3; mode++ { // 0: flipped copy before, 1: instead (genuine later), 2: after
			// quick tier, ECDSA: always "flipped copy first", plus one of the other two modes
			if !thorough && strings.HasPrefix(pr.name, "ecdsa") && mode != 0 && mode != 1+(pi+int(r.Seed))%2 {
				continue
			}
			st := sts[(pi+mode)%len(sts)]
			net := pr.build(rng)
			runWithFlips(r, net, rand.New(rand.NewSource(int64(mode)+r.Seed)), st, mode, pr.name)
			r.Evals++
			ends := 0
			for _, nd := range net.Nodes {
				ends += len(nd.Ends)
			}
			r.Assert(ends == len(net.Nodes) && len(net.Panics) == 0, pr.name+"/flip-run-completes", "run-with-flag-flipped-copies-still-finishes-once", func() string { return fmt.Sprint(st.Name, mode, net.Panics) })
			engineCheck(r, pr.name, net, pr.name)
			checkRouting(r, pr.name, net)
			// contents: no long-term secret of the sender in any outgoing message
			{
				cq := tss.S256().Params().N
				if strings.HasPrefix(pr.name, "eddsa") {
					cq = tss.Edwards().Params().N
				}
				var all []int
				var ids []*big.Int
				for i, nd := range net.Nodes {
					all = append(all, i)
					ids = append(ids, new(big.Int).SetBytes(nd.ID.Key))
				}
				st := ""
				if strings.HasSuffix(pr.name, "keygen") {
					st = "KGRound2Message1"
				}
				checkNoSecrets(r, pr.name, net, cq, st, all, all, ids)
			}
		}
	}
	// the two resharing protocols: wrong-channel copies before / instead of / after every delivery
	eks := fixtureEcKeys()
	edKs, edErr := genEdKeys(rng, 3, 1, 0, Strategy{Name: "fifo", Pick: pickFIFO})
	for mode := 0; mode < 3; mode++ {
		for _, proto := range []string{"eddsa-resharing", "ecdsa-resharing"} {
			if !thorough && proto == "ecdsa-resharing" && mode != 0 && mode != 1+int(r.Seed)%2 {
				continue
			}
			var net *Net
			nOld := 0
			if proto == "ecdsa-resharing" {
				keys := make([]ecdsakeygen.LocalPartySaveData, 3)
				for i := range keys {
					keys[i] = eks.keys[i]
					keys[i].Xi = new(big.Int).Set(eks.keys[i].Xi)
				}
				nOld = 3
				net = ecdsaResharingNet(rng, keys, eks.pids[:3], eks.t, makePIDs([]*big.Int{big.NewInt(8001), big.NewInt(8002), big.NewInt(8003)}, "N"), 1, false, 1)
			} else {
				if edErr != nil {
					continue
				}
				nOld = 2
				net = eddsaResharingNet(rng, cloneEdKeys(edKs.keys[:2]), edKs.pids[:2], 1, makePIDs([]*big.Int{big.NewInt(8001), big.NewInt(8002), big.NewInt(8003)}, "N"), 1)
			}
			waits := map[int][]string{}
			net.OnEvent = recordWaiting(nOld, waits, nil)
			sts := strategies(len(net.Nodes), rng)
			st := sts[(mode*2+int(r.Seed))%4] // fifo, lifo, random, future-first
			runWithFlips(r, net, rand.New(rand.NewSource(int64(mode)+r.Seed)), st, mode, proto)
			r.Evals++
			ends := 0
			for _, nd := range net.Nodes {
				ends += len(nd.Ends)
			}
			r.Assert(ends == len(net.Nodes) && len(net.Panics) == 0, proto+"/flip-run-completes", "run-with-flag-flipped-copies-still-finishes-once", func() string { return fmt.Sprint(st.Name, mode, net.Panics) })
			engine2Check(r, proto, net, nOld, waits)
			checkRoutingOpt(r, proto, net, false)
			{
				cq := tss.S256().Params().N
				if proto == "eddsa-resharing" {
					cq = tss.Edwards().Params().N
				}
				var olds, news []int
				var ids []*big.Int
				for i, nd := range net.Nodes {
					if i < nOld {
						olds = append(olds, i)
					} else {
						news = append(news, i)
						ids = append(ids, new(big.Int).SetBytes(nd.ID.Key))
					}
				}
				checkNoSecrets(r, proto, net, cq, "DGRound3Message1", olds, news, ids)
			}
		}
	}
	// resharing with late starters: every old member's first message reaches a new member before its Start(). Right
	// after Start() that member has caught up with everything it holds (it is past round 2 and has answered), so what
	// it awaits is exactly the old committee (their round-3 messages), as for a member started on time; the whole
	// run is compared with the two-committee engine model as well.
	for _, proto := range []string{"eddsa-resharing", "ecdsa-resharing"} {
		lateSets := [][]int{{0}, {0, 1, 2}}
		if !thorough {
			lateSets = lateSets[int(r.Seed)%2 : int(r.Seed)%2+1]
			if proto == "ecdsa-resharing" {
				lateSets = [][]int{{2}}
			}
		}
		for _, lateNew := range lateSets {
			var net *Net
			nOld := 0
			if proto == "ecdsa-resharing" {
				keys := make([]ecdsakeygen.LocalPartySaveData, 3)
				for i := range keys {
					keys[i] = eks.keys[i]
					keys[i].Xi = new(big.Int).Set(eks.keys[i].Xi)
				}
				nOld = 3
				net = ecdsaResharingNet(rng, keys, eks.pids[:3], eks.t, makePIDs([]*big.Int{big.NewInt(8101), big.NewInt(8102), big.NewInt(8103)}, "N"), 1, false, 1)
			} else {
				if edErr != nil {
					continue
				}
				nOld = 2
				net = eddsaResharingNet(rng, cloneEdKeys(edKs.keys[:2]), edKs.pids[:2], 1, makePIDs([]*big.Int{big.NewInt(8101), big.NewInt(8102), big.NewInt(8103)}, "N"), 1)
			}
			var late []int
			for _, k := range lateNew {
				late = append(late, nOld+k)
			}
			waits := map[int][]string{}
			rec := recordWaiting(nOld, waits, nil)
			net.OnEvent = func(n *Net, ev *Event, d *Delivery) {
				rec(n, ev, d)
				if ev.Kind != "start" {
					return
				}
				for _, l := range late {
					if n.Nodes[l].Name != ev.Node || ev.Err != "" {
						continue
					}
					// the old committee's first messages were all delivered before this Start()
					got := 0
					for _, dl := range n.Delivered {
						if dl.To == l && dl.From < nOld && shortType(dl.Msg.Type()) == "DGRound1Message" {
							got++
						}
					}
					// (ECDSA round 2 also awaits the other new members: with several late starters those messages need not
					// exist yet; the engine-model comparison below pins that case)
					if got < nOld || proto == "ecdsa-resharing" && len(late) > 1 {
						continue
					}
					var olds []int
					for _, p := range n.Nodes[l].Party.WaitingFor() {
						for k := 0; k < nOld; k++ {
							if string(n.Nodes[k].ID.Key) == string(p.Key) {
								olds = append(olds, k)
							}
						}
					}
					r.Assert(len(olds) == nOld, proto+"/late-start/waiting-for", "waiting-for-is-the-exact-awaited-set", func() string {
						return fmt.Sprintf("%s started after all %d old members' first messages had been delivered to it: it is in %s and awaits old members %v (a member started on time awaits all of them)", ev.Node, nOld, roundOf(n.Nodes[l].Party), olds)
					})
				}
			}
			st := Strategy{Name: fmt.Sprintf("prestart-new-%v", lateNew), Pick: pickFIFO, PreStart: true, LateStart: late}
			net.Run(rand.New(rand.NewSource(r.Seed)), st, 500000)
			r.Evals++
			r.Dist[proto+"/"+st.Name]++
			ends := 0
			for _, nd := range net.Nodes {
				ends += len(nd.Ends)
			}
			r.Assert(ends == len(net.Nodes) && len(net.Panics) == 0, proto+"/late-start/completes", "late-started-run-finishes-once", func() string { return fmt.Sprint(st.Name, net.Panics) })
			engine2Check(r, proto, net, nOld, waits)
		}
	}
}

// the secret-bearing message types (key shares, MtA ciphertexts and responses, factorisation proofs), per protocol family
var secretBearingTypes = map[string]bool{
	"eddsa-keygen/KGRound2Message1": true, "ecdsa-keygen/KGRound2Message1": true,
	"ecdsa-signing/SignRound1Message1": true, "ecdsa-signing/SignRound2Message": true,
	"eddsa-resharing/DGRound3Message1": true, "ecdsa-resharing/DGRound3Message1": true, "ecdsa-resharing/DGRound4Message1": true,
}

// checkRouting asserts the per-type channel discipline and the wire round-trip on every emitted message
func checkRouting(r *Run, proto string, net *Net) { checkRoutingOpt(r, proto, net, true) }

func checkRoutingOpt(r *Run, proto string, net *Net, once bool) {
	for _, nd := range net.Nodes {
		perType := map[string]int{}
		for _, m := range nd.Emitted {
			t := shortType(m.Type())
			perType[t]++
			if secretBearingTypes[proto+"/"+t] {
				r.Assert(!m.IsBroadcast() && len(m.GetTo()) == 1, proto+"/routing/"+t, "secret-bearing-message-to-exactly-one-recipient-not-broadcast", func() string { return emitDesc(m) })
			} else {
				r.Assert(m.IsBroadcast(), proto+"/routing/"+t, "public-message-flagged-broadcast", func() string { return emitDesc(m) })
			}
			// wire round trip
			bz, _, err := m.WireBytes()
			if err != nil {
				r.Assert(false, proto+"/wire/"+t, "message-survives-wire-encoding", nil)
				continue
			}
			pm, err := tss.ParseWireMessage(bz, m.GetFrom(), m.IsBroadcast())
			ok := err == nil && pm.Type() == m.Type() && pm.IsBroadcast() == m.IsBroadcast() && pm.GetFrom().Index == m.GetFrom().Index && pm.ValidateBasic()
			if ok {
				bz2, _, e2 := pm.WireBytes()
				ok = e2 == nil && string(bz2) == string(bz)
			}
			r.Assert(ok, proto+"/wire/"+t, "message-survives-wire-encoding", func() string { return t })
		}
		// once each: p2p types n-1 times, broadcast types once (two committees: the engine trace covers the counts)
		for t, c := range perType {
			if !once {
				break
			}
			want := 1
			if secretBearingTypes[proto+"/"+t] {
				want = len(net.Nodes) - 1
			}
			r.Assert(c == want, proto+"/once/"+t, "each-prescribed-message-sent-exactly-once", func() string { return fmt.Sprintf("%s sent %d times, want %d", t, c, want) })
		}
	}
}

// runWithFlips drives the net like Run but injects, for every delivery, a copy with the transport's
// broadcast flag flipped: before (mode 0), instead of — genuine re-queued — (mode 1), or after (mode 2).
func runWithFlips(r *Run, n *Net, rng *rand.Rand, st Strategy, mode int, proto string) {
	for i := range n.Nodes {
		n.Start(i)
	}
	flipped := map[int]bool{}
	for step := 0; step < 200000; step++ {
		if len(n.Pending) == 0 {
			return
		}
		var deliverable []int
		for k := range n.Pending {
			deliverable = append(deliverable, k)
		}
		k := st.Pick(n, rng, deliverable)
		d := n.Pending[k]
		inject := func() {
			before := roundOf(n.Nodes[d.To].Party)
			// a round that awaits nobody (an old member's round 1 in resharing) is left at the next update call whatever
			// that call carries: not an advance caused by the copy
			idle := len(waitingIdx(n.Nodes[d.To].Party)) == 0
			endsBefore := len(n.Nodes[d.To].Ends)
			fd := &Delivery{Seq: d.Seq, From: d.From, To: d.To, Msg: d.Msg, Wire: d.Wire, Bcast: !d.Bcast}
			n.Pending = append(n.Pending, fd)
			n.Deliver(len(n.Pending)-1, false)
			after := roundOf(n.Nodes[d.To].Party)
			r.Assert((before == after || idle) && len(n.Nodes[d.To].Ends) == endsBefore, proto+"/flag-flip", "wrong-channel-copy-never-advances-a-round", func() string {
				return fmt.Sprintf("%s <- %s %s flipped to bcast=%v: %s -> %s", n.Nodes[d.To].Name, n.Nodes[d.From].Name, shortType(d.Msg.Type()), !d.Bcast, before, after)
			})
		}
		switch mode {
		case 0:
			inject()
			// find d again (indices moved)
			for kk, x := range n.Pending {
				if x == d {
					n.Deliver(kk, false)
					break
				}
			}
		case 1:
			if !flipped[d.Seq] {
				flipped[d.Seq] = true
				inject() // the genuine delivery stays queued and arrives later
			} else {
				n.Deliver(k, false)
			}
		default:
			// a wrong-channel copy overwrites the stored slot; the genuine message is delivered again afterwards
			// (duplicates are legal), as a transport that corrected the flag would do
			n.Deliver(k, true)
			inject()
			for kk, x := range n.Pending {
				if x == d {
					n.Deliver(kk, false)
					break
				}
			}
		}
	}
}

// checkNoSecrets: no outgoing message of a party contains one of that party's long-term secrets: the ones it held when
// the run started (key share, Paillier factors and exponents, ring-Pedersen exponents and primes), the key share it
// ends with, and — in the share-dealing protocols — the polynomial behind the shares it dealt: its constant term, its
// other coefficients, and every share meant for a party that is not a recipient of the message. Values are compared as
// integers and, for scalars, modulo the group order.
func checkNoSecrets(r *Run, proto string, net *Net, q *big.Int, shareType string, dealers, receivers []int, receiverIDs []*big.Int) {
	type sec struct {
		name   string
		v      *big.Int
		scalar bool
		notFor int // ≥ 0: a share dealt to that receiver position: legitimate in a message addressed to it alone
	}
	secrets := map[int][]sec{}
	for i, nd := range net.Nodes {
		for _, s := range nd.Secrets {
			secrets[i] = append(secrets[i], sec{s.name, s.v, s.name == "x_i" || s.name == "w_i", -1})
		}
		for _, e := range nd.Ends {
			switch k := e.(type) {
			case *eddsakeygen.LocalPartySaveData:
				if k.Xi != nil && k.Xi.Sign() != 0 {
					secrets[i] = append(secrets[i], sec{"saved x_i", k.Xi, true, -1})
				}
			case *ecdsakeygen.LocalPartySaveData:
				if k.Xi != nil && k.Xi.Sign() != 0 {
					secrets[i] = append(secrets[i], sec{"saved x_i", k.Xi, true, -1})
				}
			}
		}
	}
	// the dealt polynomials, reconstructed from the shares on the wire (dealer d → receiver position a)
	if shareType != "" {
		for _, d := range dealers {
			shares := map[int]*big.Int{}
			for _, m := range net.Nodes[d].Emitted {
				if shortType(m.Type()) != shareType || len(m.GetTo()) != 1 {
					continue
				}
				refl := m.(tss.ParsedMessage).Content().ProtoReflect()
				fd := refl.Descriptor().Fields().ByName("share")
				if fd == nil {
					continue
				}
				for a, ri := range receivers {
					if string(net.Nodes[ri].ID.Key) == string(m.GetTo()[0].Key) {
						shares[a] = new(big.Int).SetBytes(refl.Get(fd).Bytes())
					}
				}
			}
			for a, v := range shares {
				secrets[d] = append(secrets[d], sec{fmt.Sprintf("share dealt to receiver %d", a), v, true, a})
			}
			// constant term by interpolation over the known shares (enough of them in every configuration run here)
			var xs, ys []*big.Int
			for a, v := range shares {
				xs = append(xs, new(big.Int).Mod(receiverIDs[a], q))
				ys = append(ys, v)
			}
			if len(xs) >= 2 {
				if c0 := lagrangeZero(q, xs, ys); c0 != nil && c0.Sign() != 0 {
					secrets[d] = append(secrets[d], sec{"constant term of the dealt polynomial (interpolated from the dealt shares)", c0, true, -1})
				}
			}
		}
	}
	scanned := 0
	for i, nd := range net.Nodes {
		for _, m := range nd.Emitted {
			content := m.(tss.ParsedMessage).Content()
			refl := content.ProtoReflect()
			toPos := -1
			if len(m.GetTo()) == 1 {
				for a, ri := range receivers {
					if string(net.Nodes[ri].ID.Key) == string(m.GetTo()[0].Key) {
						toPos = a
					}
				}
			}
			for _, fd := range byteFields(content) {
				var vals [][]byte
				if fd.IsList() {
					l := refl.Get(fd).List()
					for e := 0; e < l.Len(); e++ {
						vals = append(vals, l.Get(e).Bytes())
					}
				} else {
					vals = append(vals, refl.Get(fd).Bytes())
				}
				for e, b := range vals {
					v := new(big.Int).SetBytes(b)
					if v.BitLen() < 64 {
						continue
					}
					scanned++
					for _, s := range secrets[i] {
						if s.notFor >= 0 && s.notFor == toPos && string(fd.Name()) == "share" {
							continue
						}
						hit := v.Cmp(s.v) == 0
						if !hit && s.scalar && v.BitLen() <= 300 {
							hit = new(big.Int).Mod(v, q).Cmp(new(big.Int).Mod(s.v, q)) == 0
						}
						r.Assert(!hit, proto+"/secret-in-message/"+shortType(m.Type())+"."+string(fd.Name()), "no-outgoing-message-contains-a-long-term-secret", func() string {
							return fmt.Sprintf("%s of %s equals its %s: %s[%d] = %s (%s)", shortType(m.Type()), nd.Name, s.name, fd.Name(), e, eInt(v), emitDesc(m))
						})
					}
				}
			}
		}
	}
	// the proofs carried by the messages: every response as long as the mask that hides the (long-term) witness in it
	qb := q.BitLen()
	for _, nd := range net.Nodes {
		for _, m := range nd.Emitted {
			content := m.(tss.ParsedMessage).Content()
			refl := content.ProtoReflect()
			for _, fd := range byteFields(content) {
				if !fd.IsList() {
					continue
				}
				sys := map[string]string{"range_proof_alice": "range", "proof_bob": "bob", "proof_bob_wc": "bobwc", "facProof": "fac"}[string(fd.Name())]
				if sys == "" {
					continue
				}
				l := refl.Get(fd).List()
				pf := make([]*big.Int, l.Len())
				zero := true
				for e := range pf {
					pf[e] = new(big.Int).SetBytes(l.Get(e).Bytes())
					zero = zero && pf[e].BitLen() <= 8
				}
				if zero {
					continue // the placeholder sent when a proof is switched off
				}
				d := maskDeficit(sys, pf, qb)
				r.Assert(d == "", proto+"/response-mask/"+shortType(m.Type())+"."+string(fd.Name()), "proof-responses-are-masked-over-their-full-range", func() string {
					return fmt.Sprintf("%s of %s: %s", shortType(m.Type()), nd.Name, d)
				})
			}
		}
	}
	r.Dist[proto+"/message-values-scanned-for-secrets"] += scanned
}
