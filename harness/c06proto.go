package main

// Protocol-level part of C06: whatever a party is handed through UpdateFromBytes, at any point of any protocol,
// the call returns and the process keeps running. Two streams, both run in child processes so that a panic in a
// goroutine the library started is attributed to the input that caused it, each call under a watchdog:
//   grid  — one field of one message of one (otherwise honest) sender is replaced by a boundary value
//           (0, 1, q-1, q, q+1, 2q, p, 2^255, 2^256, 2^4100, ff…ff, value<<8, value>>8, leading zero byte, +1,
//           emptied); the first, second and last element of every list field (length prefixes live there);
//           the proof-heavy ECDSA protocols also with the verifier pool limited to one worker
//   arity — the deviator commits to k values of its choosing (small numbers or coordinates of valid points) and later
//           opens that commitment correctly: a hash-correct de-commitment of the wrong arity, for every
//           commitment / de-commitment pair of every protocol
//   junk  — from a chosen event on, parties receive random bytes, bit-flipped / truncated / extended genuine
//           messages, genuine messages under another or an out-of-range sender, with the broadcast flag flipped,
//           and messages of another protocol

import (
	"fmt"
	"math/big"
	"math/rand"
	"strings"
	"time"

	"github.com/bnb-chain/tss-lib/v2/crypto"
	"github.com/bnb-chain/tss-lib/v2/crypto/commitments"
	"github.com/bnb-chain/tss-lib/v2/tss"
	"google.golang.org/protobuf/proto"
	"google.golang.org/protobuf/reflect/protoreflect"
)

// netConcurrency > 0: every party built by the net builders is limited to that many verifier goroutines
var netConcurrency int

func applyConcurrency(p interface{ SetConcurrency(int) }) {
	if netConcurrency > 0 {
		p.SetConcurrency(netConcurrency)
	}
}

var gridKinds = []string{"g:0", "g:1", "g:q-1", "g:q", "g:q+1", "g:2q", "g:p", "g:2^255", "g:2^256", "g:2^4100", "g:ff", "g:shl8", "g:shr8", "g:lead0", "+1", "empty"}

// gridBytes returns the replacement for `old` under a grid kind (ed = the protocol runs on edwards25519)
func gridBytes(kind string, old []byte, ed bool) []byte {
	c := tss.S256()
	if ed {
		c = tss.Edwards()
	}
	q, p := c.Params().N, c.Params().P
	one := big.NewInt(1)
	switch kind {
	case "g:0":
		return []byte{0}
	case "g:1":
		return []byte{1}
	case "g:q-1":
		return new(big.Int).Sub(q, one).Bytes()
	case "g:q":
		return q.Bytes()
	case "g:q+1":
		return new(big.Int).Add(q, one).Bytes()
	case "g:2q":
		return new(big.Int).Lsh(q, 1).Bytes()
	case "g:p":
		return p.Bytes()
	case "g:2^255":
		return new(big.Int).Lsh(one, 255).Bytes()
	case "g:2^256":
		return new(big.Int).Lsh(one, 256).Bytes()
	case "g:2^4100":
		return new(big.Int).Lsh(one, 4100).Bytes()
	case "g:ff":
		n := len(old)
		if n == 0 {
			n = 1
		}
		return []byte(strings.Repeat("\xff", n))
	case "g:shl8":
		return append(append([]byte{}, old...), 0)
	case "g:shr8":
		if len(old) < 2 {
			return []byte{0}
		}
		return append([]byte{}, old[:len(old)-1]...)
	case "g:lead0":
		return append([]byte{0}, old...)
	}
	return nil
}

// c06Protos: the C05 protocol set plus the proof-heavy ECDSA protocols with a single verifier worker
func c06Protos(rng *rand.Rand) []c05Proto {
	base := c05Protos(rng)
	out := append([]c05Proto{}, base...)
	for _, p := range base {
		if p.name == "ecdsa-keygen" || p.name == "ecdsa-resharing" {
			q := p
			out = append(out, c05Proto{name: p.name + "@c1", checkOut: p.checkOut, build: func(r *rand.Rand) *Net {
				netConcurrency = 1
				defer func() { netConcurrency = 0 }()
				return q.build(r)
			}})
		}
	}
	return out
}

func enumerateGridSpecs(rng *rand.Rand, p c05Proto, thorough bool) []injSpec {
	net := p.build(rand.New(rand.NewSource(11)))
	net.Run(rand.New(rand.NewSource(1)), Strategy{Name: "fifo", Pick: pickFIFO}, 300000)
	var specs []injSpec
	for dev := range net.Nodes {
		seen := map[string]bool{}
		for _, m := range net.Nodes[dev].Emitted {
			t := shortType(m.Type())
			if seen[t] {
				continue
			}
			seen[t] = true
			c := m.(tss.ParsedMessage).Content()
			for _, fd := range byteFields(c) {
				elems := []int{0}
				if fd.IsList() {
					n := c.ProtoReflect().Get(fd).List().Len()
					elems = nil
					for _, e := range []int{0, 1, n / 2, n - 1} {
						dup := e < 0 || e >= n
						for _, x := range elems {
							dup = dup || x == e
						}
						if !dup {
							elems = append(elems, e)
						}
					}
				}
				// the single-worker variants matter where the verifier pool is used: the list-valued proofs
				if strings.Contains(p.name, "@") && !fd.IsList() {
					continue
				}
				for _, e := range elems {
					for _, k := range gridKinds {
						specs = append(specs, injSpec{Proto: p.name, Dev: dev, Type: t, Field: string(fd.Name()), Elem: e, Kind: k, Seed: rng.Int63()})
					}
				}
			}
		}
	}
	if thorough {
		return specs
	}
	// quick: per (type, field): the length-prefix breaker (+1 on the first element) by the first sender of the type,
	// and one (kind, sender) combination at random per element position (first, second, middle, last)
	rng.Shuffle(len(specs), func(i, j int) { specs[i], specs[j] = specs[j], specs[i] })
	first := map[string]int{}
	for _, sp := range specs {
		if v, ok := first[sp.Type]; !ok || sp.Dev < v {
			first[sp.Type] = sp.Dev
		}
	}
	cnt := map[string]int{}
	var pick []injSpec
	for _, sp := range specs {
		// one (kind, sender) combination per element position of a field: the first, second, middle and last element
		// of a list play different parts (length prefixes, scalars, point coordinates)
		k := fmt.Sprintf("%s.%s[%d]", sp.Type, sp.Field, sp.Elem)
		if strings.HasPrefix(p.name, "ecdsa-keygen") || strings.HasPrefix(p.name, "ecdsa-resharing") {
			k = sp.Type + "." + sp.Field // (the two expensive protocols: one per field)
		}
		if sp.Kind == "+1" && sp.Elem == 0 && sp.Dev == first[sp.Type] {
			pick = append(pick, sp)
			continue
		}
		// scalars: the group order and its double by the first sender in every single-valued field (a value that is zero
		// modulo q but not zero is what a plain zero test lets through)
		if (sp.Kind == "g:q" || sp.Kind == "g:2q") && sp.Dev == first[sp.Type] && !strings.Contains(p.name, "@") && cnt["q/"+sp.Type+"."+sp.Field+sp.Kind] < 1 && isSingleField(sp, specs) {
			cnt["q/"+sp.Type+"."+sp.Field+sp.Kind]++
			pick = append(pick, sp)
			continue
		}
		if cnt[k] < 1 {
			cnt[k]++
			pick = append(pick, sp)
		}
	}
	return pick
}

// one junk run: the protocol runs honestly; from event `s.Elem` on, after every event the party that just acted and
// one other party are handed junk through UpdateFromBytes
func runJunk(p c05Proto, s injSpec) injResult {
	rng := rand.New(rand.NewSource(s.Seed))
	net := p.build(rand.New(rand.NewSource(11)))
	net.StopOnError = true
	res := injResult{Spec: s}
	// wires of another protocol
	var foreign [][]byte
	other := "eddsa-keygen"
	if p.name == "eddsa-keygen" {
		other = "eddsa-signing"
	}
	if op, ok := protoRegistry[other]; ok {
		for _, d := range refRunOf(op).Delivered {
			foreign = append(foreign, d.Wire)
		}
	}
	budget := 60
	evIdx := 0
	var lastWire []byte
	var lastFrom *tss.PartyID
	lastBcast := true
	call := func(nd *Node, what string, wire []byte, from *tss.PartyID, bcast bool) {
		if nd.Err != nil || budget <= 0 {
			return
		}
		budget--
		res.Applied = true
		done := make(chan string, 1)
		go func() {
			defer func() {
				if e := recover(); e != nil {
					done <- fmt.Sprintf("panic in UpdateFromBytes(%s) at %s after event %d: %v", what, nd.Name, evIdx, e)
				}
			}()
			_, err := nd.Party.UpdateFromBytes(wire, from, bcast)
			// an input refused before it was stored leaves the session as it was; any other error ends the session for
			// this party (the library does not latch a failed session: the caller must stop feeding it)
			if err != nil && nd.Err == nil {
				refused := false
				for _, m := range []string{"received nil msg", "invalid sender", "ValidateBasic", "sender index too great", "proto:", "unmarshal", "cannot parse"} {
					refused = refused || strings.Contains(err.Error(), m)
				}
				if !refused {
					nd.Err = err
				}
			}
			done <- ""
		}()
		select {
		case msg := <-done:
			if msg != "" {
				res.Panics = append(res.Panics, msg)
			}
		case <-time.After(30 * time.Second):
			res.Stalled = true
			res.Panics = append(res.Panics, fmt.Sprintf("UpdateFromBytes(%s) at %s after event %d did not return within 30 s", what, nd.Name, evIdx))
			budget = 0
		}
	}
	net.OnEvent = func(n *Net, ev *Event, d *Delivery) {
		evIdx++
		if d != nil {
			lastWire, lastFrom, lastBcast = d.Wire, d.Msg.GetFrom(), d.Bcast
		}
		if evIdx < s.Elem || budget <= 0 || lastWire == nil {
			return
		}
		var targets []*Node
		for _, nd := range n.Nodes {
			if nd.Name == ev.Node {
				targets = append(targets, nd)
			}
		}
		targets = append(targets, n.Nodes[rng.Intn(len(n.Nodes))])
		for _, nd := range targets {
			if !nd.Started {
				continue
			}
			w := append([]byte{}, lastWire...)
			switch rng.Intn(10) {
			case 0:
				call(nd, "random-bytes", randBytes(rng, rng.Intn(200)), lastFrom, rng.Intn(2) == 0)
			case 1:
				for k := 0; k < 1+rng.Intn(3); k++ {
					w[rng.Intn(len(w))] ^= 1 << uint(rng.Intn(8))
				}
				call(nd, "bit-flipped", w, lastFrom, lastBcast)
			case 2:
				call(nd, "truncated", w[:rng.Intn(len(w))], lastFrom, lastBcast)
			case 3:
				call(nd, "extended", append(w, randBytes(rng, 1+rng.Intn(20))...), lastFrom, lastBcast)
			case 4:
				o := n.Nodes[rng.Intn(len(n.Nodes))]
				call(nd, "other-sender", w, o.ID, lastBcast)
			case 5:
				bogus := tss.NewPartyID("x", "x", new(big.Int).SetBytes(lastFrom.Key))
				bogus.Index = []int{len(n.Nodes), len(n.Nodes) + 7, -1, 1 << 30}[rng.Intn(4)]
				call(nd, fmt.Sprintf("sender-index-%d", bogus.Index), w, bogus, lastBcast)
			case 6:
				unknown := tss.NewPartyID("y", "y", big.NewInt(int64(1000000+rng.Intn(1000))))
				unknown.Index = lastFrom.Index
				call(nd, "sender-unknown-key", w, unknown, lastBcast)
			case 7:
				call(nd, "flag-flipped", w, lastFrom, !lastBcast)
			case 8:
				if len(foreign) > 0 {
					call(nd, "other-protocol", foreign[rng.Intn(len(foreign))], lastFrom, rng.Intn(2) == 0)
				}
			case 9:
				call(nd, "empty", nil, lastFrom, lastBcast)
			}
		}
	}
	done := make(chan bool, 1)
	go func() {
		net.Run(rand.New(rand.NewSource(s.Seed)), Strategy{Name: "random", Pick: pickRandom}, 300000)
		done <- true
	}()
	select {
	case <-done:
	case <-time.After(120 * time.Second):
		res.Stalled = true
		res.Panics = append(res.Panics, "run did not return within 120 s")
		return res
	}
	res.Panics = append(res.Panics, net.Panics...)
	for _, nd := range net.Nodes {
		if len(nd.Ends) > 0 {
			res.Outputs++
		}
	}
	return res
}

// commitment / de-commitment pairs of a protocol, discovered from a reference run: the i-th message type with a
// bytes field "…commitment" pairs with the i-th type with a list field "de_commitment" / "v_decommitment"
type cdPair struct{ cType, cField, dType, dField string }

func commitPairs(ref *Net) []cdPair {
	var cs, ds [][2]string
	seen := map[string]bool{}
	for _, d := range ref.Delivered {
		t := shortType(d.Msg.Type())
		if seen[t] {
			continue
		}
		seen[t] = true
		for _, fd := range byteFields(d.Msg.(tss.ParsedMessage).Content()) {
			n := string(fd.Name())
			switch {
			case fd.IsList() && (n == "de_commitment" || n == "v_decommitment"):
				ds = append(ds, [2]string{t, n})
			case !fd.IsList() && strings.HasSuffix(n, "commitment"):
				cs = append(cs, [2]string{t, n})
			}
		}
	}
	var out []cdPair
	for i := 0; i < len(cs) && i < len(ds); i++ {
		out = append(out, cdPair{cs[i][0], cs[i][1], ds[i][0], ds[i][1]})
	}
	return out
}

// one run in which the deviator commits to `s.Elem` values of its choosing (small numbers, or the coordinates of valid
// points) and later opens that commitment correctly: a hash-correct de-commitment of the wrong arity
func runCommitArity(p c05Proto, s injSpec) injResult {
	rng := rand.New(rand.NewSource(s.Seed))
	res := injResult{Spec: s}
	pairs := commitPairs(refRunOf(p))
	var pi int
	fmt.Sscan(s.Field, &pi)
	if pi >= len(pairs) {
		return res
	}
	pr := pairs[pi]
	ec := tss.S256()
	if strings.HasPrefix(p.name, "eddsa") {
		ec = tss.Edwards()
	}
	vals := make([]*big.Int, s.Elem)
	for i := range vals {
		if s.Seed%2 == 0 {
			vals[i] = big.NewInt(int64(3 + i))
		} else {
			pt := crypto.ScalarBaseMult(ec, big.NewInt(int64(2+i/2)))
			vals[i] = pt.X()
			if i%2 == 1 {
				vals[i] = pt.Y()
			}
		}
	}
	cmt := commitments.NewHashCommitment(rng, vals...)
	net := p.build(rand.New(rand.NewSource(11)))
	net.StopOnError = true
	setBytes := func(m tss.Message, field string, single []byte, list [][]byte) tss.Message {
		content := proto.Clone(m.(tss.ParsedMessage).Content()).(tss.MessageContent)
		refl := content.ProtoReflect()
		fd := refl.Descriptor().Fields().ByName(protoreflect.Name(field))
		if fd == nil {
			return m
		}
		if fd.IsList() {
			l := refl.Mutable(fd).List()
			l.Truncate(0)
			for _, b := range list {
				l.Append(protoreflect.ValueOfBytes(b))
			}
		} else {
			refl.Set(fd, protoreflect.ValueOfBytes(single))
		}
		return rewrap(m, content)
	}
	net.Tamper = func(from int, m tss.Message) []tss.Message {
		if from != s.Dev {
			return []tss.Message{m}
		}
		switch shortType(m.Type()) {
		case pr.cType:
			res.Applied = true
			return []tss.Message{setBytes(m, pr.cField, cmt.C.Bytes(), nil)}
		case pr.dType:
			var d [][]byte
			for _, v := range cmt.D {
				d = append(d, v.Bytes())
			}
			return []tss.Message{setBytes(m, pr.dField, nil, d)}
		}
		return []tss.Message{m}
	}
	done := make(chan bool, 1)
	go func() {
		net.Run(rand.New(rand.NewSource(1)), Strategy{Name: "fifo", Pick: pickFIFO}, 300000)
		done <- true
	}()
	select {
	case <-done:
	case <-time.After(120 * time.Second):
		res.Stalled = true
		res.Panics = append(res.Panics, "run did not return within 120 s")
		return res
	}
	res.Panics = net.Panics
	for i, nd := range net.Nodes {
		if i != s.Dev && nd.Err != nil {
			res.Errors = append(res.Errors, nd.Name+": "+errDesc(nd.Err))
		}
		if len(nd.Ends) > 0 {
			res.Outputs++
		}
	}
	return res
}

func protocolLevelC06(r *Run, rng *rand.Rand, thorough bool) {
	protos := c06Protos(rng)
	var all []injSpec
	for _, p := range protos {
		specs := enumerateGridSpecs(rng, p, thorough)
		if thorough && len(specs) > 280 {
			rng.Shuffle(len(specs), func(i, j int) { specs[i], specs[j] = specs[j], specs[i] })
			specs = specs[:280]
		}
		// hash-correct de-commitments of the wrong arity
		if !strings.Contains(p.name, "@") {
			probe := p.build(rand.New(rand.NewSource(11)))
			probe.Run(rand.New(rand.NewSource(1)), Strategy{Name: "fifo", Pick: pickFIFO}, 300000)
			ks := []int{1, 2, 3, 4}
			if thorough {
				ks = []int{1, 2, 3, 4, 5, 6, 7, 8, 10}
			}
			heavy := p.name == "ecdsa-keygen" || p.name == "ecdsa-resharing"
			for pi := range commitPairs(probe) {
				for _, k := range ks {
					for v := int64(0); v < 2; v++ {
						if !thorough && (v == 1 && k%2 == 1 || heavy && (v == 1 || k%2 == 1)) {
							continue
						}
						dev := 0
						if (k+pi)%2 == 1 {
							dev = len(probe.Nodes) - 1
						}
						if strings.Contains(p.name, "resharing") {
							dev = (k + pi) % 2 // an old member: the resharing commitments are the old committee's
						}
						specs = append(specs, injSpec{Proto: p.name, Dev: dev, Kind: "commit-arity", Field: fmt.Sprint(pi), Elem: k, Seed: rng.Int63()/2*2 + v})
					}
				}
			}
		}
		nj := 2
		if thorough {
			nj = 40
		}
		if !strings.Contains(p.name, "@") {
			for k := 0; k < nj; k++ {
				// start event spread over the run (runs have between ~10 and ~150 events)
				specs = append(specs, injSpec{Proto: p.name, Kind: "junk", Elem: 1 + rng.Intn(8)*(k+1), Seed: rng.Int63()})
			}
		}
		r.Note("%s: %d protocol-level inputs", p.name, len(specs))
		all = append(all, specs...)
	}
	results, crashed := runSpecsInChildren(r, all)
	for _, c := range crashed {
		parts := strings.SplitN(c, " :: ", 2)
		key := "protocol-crash/" + strings.Join(strings.Fields(parts[0])[:3], "/")
		r.Evals++
		r.Assert(false, key, "process-keeps-running", func() string { return c })
	}
	for got := range results {
		for _, ir := range got {
			r.Evals++
			s := ir.Spec
			site := fmt.Sprintf("%s/%s.%s/%s", s.Proto, s.Type, s.Field, s.Kind)
			if s.Kind == "junk" {
				site = s.Proto + "/junk"
			}
			if s.Kind == "commit-arity" {
				site = fmt.Sprintf("%s/commit-pair-%s/arity-%d", s.Proto, s.Field, s.Elem)
			}
			r.Dist["protocol-input/"+s.Proto+"/"+strings.SplitN(s.Kind, ":", 2)[0]]++
			if !ir.Applied {
				r.Dist["protocol-input-not-applicable"]++
				continue
			}
			r.Distinct++
			r.Traces++
			r.Assert(len(ir.Panics) == 0 && !ir.Stalled, "protocol/"+site, "update-returns-and-process-keeps-running", func() string { return s.String() + " " + strings.Join(ir.Panics, "; ") })
		}
	}
}

// isSingleField: the field of this spec is not a list (only element 0 was ever enumerated for it)
func isSingleField(sp injSpec, all []injSpec) bool {
	for _, o := range all {
		if o.Type == sp.Type && o.Field == sp.Field && o.Elem != 0 {
			return false
		}
	}
	return true
}
